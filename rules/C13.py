"""C13 - histograms never write outside their bins; binning / normalisation formulas (RANGE + ALG + PATH)."""
import re
import sympy as sp
from vsa import front
from vsa.facts import Facts, unwrap, show, walk, lit_value
from vsa.front import AnalysisBroken
from vsa.interval import Range, fmt
from vsa.alg import Fold, S, F as Fn, equal, canon
from vsa.cfg import CFG
from vsa.cases import decide, executes, resolve_ite, ites, congruent, subst

LEVEL = "proof"
T = "votca::tools::"


def run(rep, tier):
    rep.explanation = ("RANGE: interval analysis with a symbolic bin count N over the clang CFG proves 0 <= index <= N-1 at "
                       "every bin subscript; ALG: the bin-index, step and normalisation expressions are folded to "
                       "canonical form and compared with the property's formulas; PATH: out-of-range values leave "
                       "before the write in non-periodic mode; CONST: seeds of running extrema.")
    rep.rule("R13.1", "every subscript of the bin array (data_.y(i) in HistogramNew::Process, pdf_[..] in "
                      "Histogram::ProcessData) has 0 <= index <= N-1 on every path, N the bin count the array was sized with")
    rep.rule("R13.2", "bin index = floor((v-min)/step + 0.5); step = (max-min)/N periodic, (max-min)/(N-1) otherwise, "
                      "1 for N=1; the bin array is sized N before use")
    rep.rule("R13.3", "Normalize: scale = 1/(sum|y| * step) (new), 1/(interval*sum) (legacy); applied multiplicatively to all bins")
    rep.rule("R13.4", "a running minimum is seeded with numeric_limits::max() and a running maximum with lowest() or "
                      "-max(), never with numeric_limits<floating>::min() (smallest positive value)")
    rep.rule("R13.5", "periodic wrap maps onto [0,N-1] by a true modulo; the non-periodic branch leaves (return/continue) "
                      "without touching the bins")
    rep.rule("R13.6", "weight conservation across the object's history: only the accumulation API (Initialize*, Process*, Normalize, Clear) may write the bin table; "
                      "accessors (set*/get*/is*/has*) and const members never reach a function that writes or re-creates data_")
    units = [front.repo("tools/src/libtools/histogramnew.cc"), front.repo("tools/src/libtools/histogram.cc")]
    F = Facts(front.export(units))
    rep.units = units

    # ================================================================ HistogramNew
    proc = F.one(T + "HistogramNew::Process")
    rep.analysed(proc)
    is_N = lambda n: n.get("k") == "member" and n.get("field") == T + "HistogramNew::nbins_"
    R = Range(proc, is_N, nmin=1).run()
    sites = [n for n in proc.walk() if n.get("k") == "mcall" and n.get("callee") in (T + "Table::y", T + "Table::x", T + "Table::yerr", T + "Table::flags")
             and len(n["args"]) == 1 and unwrap(n["obj"]).get("field") == T + "HistogramNew::data_"]
    rep.floor("R13.1", len(sites), 1, "bin subscripts in HistogramNew::Process")
    for s in sites:
        check_site(rep, R, proc, s, unwrap(s["args"][0]), "HistogramNew::Process")

    # sized N before use: Initialize_ calls data_.resize(nbins_) on every path; nbins_ written only in Initialize
    init_ = F.one(T + "HistogramNew::Initialize_")
    rep.analysed(init_)
    rs = [n for n in init_.walk() if n.get("k") == "mcall" and n.get("callee") == T + "Table::resize"
          and unwrap(n["obj"]).get("field") == T + "HistogramNew::data_"]
    ok = False
    if rs:
        a = unwrap(rs[0]["args"][0])
        g = CFG(init_)
        ok = is_N(a) and all(g.dominates_block(g.where[rs[0]["id"]][0], b) for b in g.exit_blocks())
    rep.check(ok, "R13.2", "sized|HistogramNew::Initialize_", "data_.resize(nbins_) dominates every exit",
              "HistogramNew::Initialize_ does not size data_ with nbins_ on every path", init_.loc(rs[0] if rs else None))
    writers = []
    for f in F.funcs:
        if not f.qname.startswith(T + "HistogramNew::"):
            continue
        for n in f.walk():
            if n.get("k") == "assign" and unwrap(n["lhs"]).get("field") == T + "HistogramNew::nbins_":
                writers.append(f)
    wnames = sorted({f.qname.split("::")[-1] for f in writers})
    rep.check(set(wnames) <= {"Initialize", "ProcessRange", "HistogramNew"}, "R13.2", "nbins-writers",
              "nbins_ written only in %s" % wnames, "nbins_ is written in %s without re-sizing data_" % wnames,
              writers[0].loc() if writers else None)
    for w in {f.qname: f for f in writers}.values():
        # each writer must call Initialize_ after the write on every path
        g = CFG(w)
        asg = [n for n in w.walk() if n.get("k") == "assign" and unwrap(n["lhs"]).get("field") == T + "HistogramNew::nbins_"]
        calls = [n for n in w.walk() if n.get("k") == "mcall" and n.get("callee") == T + "HistogramNew::Initialize_"]
        good = bool(calls) and all(post_dominated(g, a["id"], [c["id"] for c in calls]) for a in asg)
        rep.check(good, "R13.2", "resize-after-write|" + w.qname.split("::")[-1], "Initialize_() follows the write of nbins_ on every path",
                  "%s writes nbins_ but does not re-initialise the table on every path" % w.qname, w.loc(asg[0]))

    # bin index formula, out-of-range behaviour (ALG + case analysis) and step formulas
    fo = Fold(proc).run()
    acc = [e for e in fo.events if e["kind"] == "store" and e.get("target_node") is not None and unwrap(e["target_node"]).get("k") == "mcall"
           and unwrap(e["target_node"]).get("callee") == T + "Table::y" and e.get("idx")]
    vname = proc.j["params"][0]["name"]
    check_binning(rep, "HistogramNew::Process", proc, fo, acc, (S(vname) - S("min_")) / S("step_") + sp.Rational(1, 2),
                  S("nbins_"), "periodic_", True)
    fi = Fold(init_).run()
    stepv = fi.exit_env().get(("field", "step_"))
    mx, mn, N = S("max_"), S("min_"), S("nbins_")
    if stepv is None or isinstance(stepv, (tuple, sp.Matrix)):
        rep.broken("R13.2", "HistogramNew::Initialize_ does not assign step_")
    else:
        one = {"(nbins_ == 1)": True, "(1 == nbins_)": True}
        many = {"(nbins_ == 1)": False, "(1 == nbins_)": False}
        cases_ = (("periodic", dict(many, periodic_=True), (mx - mn) / N, "periodic step is %s, not (max-min)/N"),
                  ("non-periodic", dict(many, periodic_=False), (mx - mn) / (N - 1), "non-periodic step is %s, not (max-min)/(N-1): bins are not centred on min+k*step up to max"),
                  ("N=1", dict(one, periodic_=True), sp.Integer(1), "step for N == 1 (periodic) is %s, not 1"),
                  ("N=1,open", dict(one, periodic_=False), sp.Integer(1), "step for N == 1 is %s, not 1"))
        for nm, atoms, want, msg in cases_:
            val = resolve_ite(stepv, atoms)
            if ites(val):
                rep.broken("R13.2", "HistogramNew::Initialize_: step_ depends on a condition the rule does not know: %s" % str(ites(val)[0].args[0])[:120])
                continue
            rep.check(equal(val, want), "R13.2", "step|" + nm, "step = %s" % val, msg % val, init_.loc(), sample=True)

    # normalisation
    norm = F.one(T + "HistogramNew::Normalize")
    rep.analysed(norm)
    check_normalize_new(rep, norm)

    # who-may-write the bins: direct writers = non-const members that touch data_; closure over member calls inside the class
    members = {}
    for f_ in F.funcs:
        if f_.qname.startswith(T + "HistogramNew::") and f_.j.get("template") != "pattern":
            members.setdefault(f_.qname.split("::")[-1], []).append(f_)
    direct = set()
    calls_ = {}
    for nm_, fs_ in members.items():
        for f_ in fs_:
            body_nodes = list(f_.walk())
            touches = any(n.get("k") == "member" and n.get("fname", n.get("field")) == "data_" for n in body_nodes)
            returns_ref_only = nm_ == "data"
            if touches and not f_.j.get("const") and not returns_ref_only:
                direct.add(nm_)
            calls_.setdefault(nm_, set()).update((n.get("callee") or "").split("::")[-1] for n in body_nodes
                                                 if n.get("k") in ("mcall", "call") and (n.get("callee") or "").startswith(T + "HistogramNew::"))
    writers = set(direct)
    changed_ = True
    while changed_:
        changed_ = False
        for nm_, cs_ in calls_.items():
            if nm_ not in writers and cs_ & writers:
                writers.add(nm_)
                changed_ = True
    rep.floor("R13.6", len(direct), 4, "members of HistogramNew that write data_ directly (Initialize_, Process, Normalize, Clear)")
    accessors = sorted(nm_ for nm_ in members if re.match(r"^(set|get|is|has)[A-Z]", nm_) or all(f_.j.get("const") for f_ in members[nm_]))
    for nm_ in accessors:
        via = sorted(calls_.get(nm_, set()) & writers)
        rep.check(nm_ not in writers, "R13.6", "accessor-leaves-bins|" + nm_, "%s does not reach a writer of data_" % nm_,
                  "HistogramNew::%s %s: calling it on a histogram that already holds data changes or wipes the accumulated weight (Initialize, Process.., %s, Process..: "
                  "the bin sum no longer equals the accepted weight)" % (nm_, ("calls " + ", ".join(via) + ", which (re)writes the bin table") if via else "writes data_ itself", nm_),
                  members[nm_][0].loc(), sample=(nm_ == "setPeriodic"))
    rep.floor("R13.6", len(accessors), 8, "accessors / const members of HistogramNew")

    # ================================================================ legacy Histogram
    pd = F.one(T + "Histogram::ProcessData")
    rep.analysed(pd)

    def is_N2(n):
        if n.get("k") == "member" and n.get("field") == T + "Histogram::options_t::n_":
            return True
        if n.get("k") == "ref" and n.get("dk") == "local" and "const" in (n.get("type") or "") and n.get("decl") in pd.decls and pd.decls[n["decl"]].get("init") is not None:
            return is_N2(unwrap(pd.decls[n["decl"]]["init"]))
        if n.get("k") == "cast" and n.get("sub") is not None:
            return is_N2(unwrap(n["sub"]))
        if n.get("k") == "mcall" and (n.get("callee") or "").endswith("::size") and unwrap(n["obj"]).get("field") == T + "Histogram::pdf_":
            return True
        return False
    R2 = Range(pd, is_N2, nmin=2).run()
    rep.assumptions.append("legacy Histogram: N = options_.n_ >= 2 (its interval is (max-min)/(n-1)); HistogramNew: N >= 1")
    subs = [n for n in pd.walk() if n.get("k") == "opcall" and n.get("op") == "[]" and unwrap(n["args"][0]).get("field") == T + "Histogram::pdf_"]
    nsub = len(subs)
    for s in subs:
        check_site(rep, R2, pd, s, unwrap(s["args"][1]), "Histogram::ProcessData")
    # file-local helpers that receive pdf_ by reference: their subscripts of that parameter are histogram subscripts too,
    # with N = <param>.size()
    for c in pd.walk():
        if c.get("k") != "call":
            continue
        hs = [h for h in F.funcs if h.qname == c.get("callee") and h.j.get("internal") and h.file == pd.file]
        for h in hs[:1]:
            for i_, a_ in enumerate(c.get("args") or []):
                if unwrap(a_).get("field") != T + "Histogram::pdf_" or i_ >= len(h.j["params"]):
                    continue
                pdecl = h.j["params"][i_].get("decl") or h.j["params"][i_].get("id")
                pname = h.j["params"][i_]["name"]

                def is_pdf(n, pname=pname):
                    n = unwrap(n)
                    return n.get("k") == "ref" and n.get("dk") == "param" and n.get("name") == pname

                def is_Nh(n, is_pdf=is_pdf):
                    return n.get("k") == "mcall" and (n.get("callee") or "").endswith("::size") and is_pdf(n["obj"])
                rep.analysed(h)
                Rh = Range(h, is_Nh, nmin=2).run()
                hsubs = [n for n in h.walk() if n.get("k") == "opcall" and n.get("op") == "[]" and is_pdf(n["args"][0])]
                nsub += len(hsubs)
                for s in hsubs:
                    check_site(rep, Rh, h, s, unwrap(s["args"][1]), h.qname.split("::")[-1])
    rep.floor("R13.1", nsub, 10, "pdf_ subscripts in Histogram::ProcessData and its file-local helpers")
    # pdf_.assign(options_.n_, 0) dominates all subscripts
    g = CFG(pd)
    asg = [n for n in pd.walk() if n.get("k") == "mcall" and re.search(r"vector<.*>::assign$", n.get("callee") or "") and unwrap(n["obj"]).get("field") == T + "Histogram::pdf_"]
    ok = bool(asg) and is_N2(unwrap(asg[0]["args"][0])) and all(g.dominates(asg[0]["id"], s["id"]) for s in subs)
    rep.check(ok, "R13.2", "sized|Histogram::ProcessData", "pdf_.assign(options_.n_, 0) dominates every subscript",
              "pdf_ is not sized with options_.n_ before it is subscripted", pd.loc(asg[0] if asg else None))

    # legacy bin index, out-of-range behaviour and interval
    fp = Fold(pd, snap=r"^interval_$|^pdf_\[").run()
    acc2 = [e for e in fp.events if e["kind"] == "store" and e.get("idx") and e["target"].startswith("pdf_[")
            and unwrap(e["node"]).get("k") == "assign" and unwrap(e["node"]).get("op") == "+="]
    acc2 = acc2[:1]
    vsym = None
    if acc2 and "env" in acc2[0]:
        from sympy.core.function import AppliedUndef
        fl = [a_ for a_ in sp.preorder_traversal(acc2[0]["idx"][0]) if str(getattr(a_, "func", "")) == "floor"]
        if fl:
            arg = fl[0].args[0]
            arg = arg.xreplace({a_: S("_loop%d" % i) for i, a_ in enumerate(sorted(arg.atoms(AppliedUndef), key=str)) if str(a_.func).startswith(("LOOP_", "SUM_"))})
            syms = sorted({x for x in arg.free_symbols if re.match(r"^\w+@L\d+$", str(x))}, key=str)
            vsym = syms[0] if len(syms) == 1 else None
    if vsym is None:
        rep.broken("R13.2", "legacy Histogram::ProcessData: accumulation into pdf_[floor(..)] of the loop value not found")
    else:
        env_ = acc2[0]["env"]
        want_arg = (vsym - env_.get(("field", "min_"), S("min_"))) / env_.get(("field", "interval_"), S("interval_")) + sp.Rational(1, 2)
        check_binning(rep, "Histogram::ProcessData", pd, fp, acc2, want_arg, S("options_.n_"), "options_.periodic_", True)
    ist = [e for e in fp.events if e["kind"] == "store" and e.get("field") == T + "Histogram::interval_"]
    if len(ist) != 1 or "env" not in ist[0]:
        rep.broken("R13.2", "expected one store to interval_ in ProcessData, found %d" % len(ist))
    else:
        env_ = ist[0]["env"]
        hi, lo = env_.get(("field", "max_"), S("max_")), env_.get(("field", "min_"), S("min_"))
        val = ist[0]["value"]
        ok = not isinstance(val, (tuple, sp.Matrix)) and equal(val, (hi - lo) / (S("options_.n_") - 1))
        rep.check(ok, "R13.2", "step|legacy", "interval_ = (max_-min_)/(n_-1)", "legacy interval_ is %s, not (max_-min_)/(n_-1)" % str(val)[:200],
                  pd.loc(ist[0]["node"]), sample=True)

    # R13.4 running extrema, on folded values: the loop over the samples carries min_ and max_; their start values in automatic mode are the
    # neutral elements, and one step maps (min, max) to (min(v, min), max(v, max)) - decided on representatives of every ordering of v, min, max
    from vsa.cases import decide as _dec, resolve_ite as _res
    fpd = Fold(pd).run()
    cpd = getattr(fpd, "conds", {})
    KMIN, KMAX = ("field", "min_"), ("field", "max_")
    outer = [l for l in getattr(fpd, "loops", []) if KMIN in l.get("init", {}) and KMAX in l.get("init", {})]
    lp, kmn, kmx = [], KMIN, KMAX
    for l in getattr(fpd, "loops", []):
        if l.get("var") is None or not l.get("step"):
            continue
        if KMIN in l["step"] and KMAX in l["step"]:
            cand = (KMIN, KMAX)
        elif outer:
            # the scan may live in a helper that receives min_/max_ by reference: its loop carries the parameters, started from the fields' current values
            o_ = outer[0]
            a_ = [k for k, v in l["init"].items() if v == o_["syms"][KMIN]]
            b_ = [k for k, v in l["init"].items() if v == o_["syms"][KMAX]]
            cand = (a_[0], b_[0]) if len(a_) == 1 and len(b_) == 1 else None
        else:
            cand = None
        if cand and l["var"] in getattr(l["step"][cand[0]], "free_symbols", set()) | getattr(l["step"][cand[1]], "free_symbols", set()):
            lp.append(l)
            kmn, kmx = cand
    rep.floor("R13.4", len(lp), 1, "loops updating the running extrema")
    if lp and outer:
        def auto_orc(lf):
            if str(lf) == "options_.auto_interval_":
                return ("AUTO", True)
            if str(lf) == "options_.extend_interval_":
                return ("EXT", True)
            return None
        for key, fld, good in ((KMIN, "min_", ("max()",)), (KMAX, "max_", ("lowest()", "-max()"))):
            iv = outer[0]["init"][key]
            iv = _res(iv, lambda cs: _dec(cpd[cs], None, {"AUTO": True, "EXT": True}, auto_orc, cpd) if cs in cpd else None) if hasattr(iv, "args") else iv
            seed = str(iv)
            bad = ("running maximum is seeded with numeric_limits<double>::min() - the smallest POSITIVE double, so an all-negative data set gets max_ ~ 0 and a wrong automatic "
                   "range") if (fld == "max_" and seed == "min()") else "running %s is seeded with %s in automatic mode" % ("minimum" if fld == "min_" else "maximum", seed)
            rep.check(seed in good, "R13.4", "seed|Histogram::ProcessData|" + fld, "%s seeded with %s" % (fld, seed), bad, pd.loc(), sample=True)
        l = lp[0]
        v_, mn_, mx_ = l["var"], l["syms"][kmn], l["syms"][kmx]
        from sympy.core.function import AppliedUndef
        badu = None
        for rv, rmn, rmx in ((5, 10, 0), (5, 3, 7), (1, 3, 7), (9, 3, 7), (3, 3, 7), (7, 3, 7), (-2, -1, -1), (4, 4, 4)):
            sub = {v_: sp.Integer(rv), mn_: sp.Integer(rmn), mx_: sp.Integer(rmx)}
            got = {}
            for key in (kmn, kmx):
                st_ = l["step"][key]
                st_ = _res(st_, lambda cs: _dec(cpd[cs], sub, None, None, cpd) if cs in cpd else None) if hasattr(st_, "args") else st_
                if hasattr(st_, "xreplace"):
                    st_ = st_.xreplace(sub)
                    st_ = st_.replace(lambda x: isinstance(x, AppliedUndef) and str(x.func) in ("min", "max"), lambda x: (sp.Min if str(x.func) == "min" else sp.Max)(*x.args))
                got[key] = st_
            if got[kmn] != min(rv, rmn) or got[kmx] != max(rv, rmx):
                badu = "for a sample %d with running (min, max) = (%d, %d) the step gives (%s, %s), required (%d, %d): a sample that lowers the minimum %s" % (
                    rv, rmn, rmx, got[kmn], got[kmx], min(rv, rmn), max(rv, rmx), "is not considered for the maximum (the first sample always is one)" if got[kmx] != max(rv, rmx) else "is lost")
                break
        rep.check(badu is None, "R13.4", "update|min_max_", "one step: (min, max) -> (min(v, min), max(v, max))", "Histogram::ProcessData: " + str(badu), pd.loc(l["node"]), sample=True)

    # legacy Normalize: every bin p_k becomes p_k / (interval_ * SUM p), the sum accumulated in floating point
    ln = F.one(T + "Histogram::Normalize")
    rep.analysed(ln)
    from vsa.vecfold import VecFold, K, KB, SUMK, havoc_atoms
    vl = VecFold(ln).run()
    pv = vl.exit_env().get(("field", "pdf_"))
    if pv is None or not hasattr(pv, "e"):
        rep.broken("R13.3", "legacy Normalize: pdf_ is not updated element-wise")
    elif havoc_atoms(pv.e):
        rep.broken("R13.3", "legacy Normalize: pdf_ is modified in a way the element-wise fold does not model: %s" % havoc_atoms(pv.e))
    else:
        p0 = Fn("at")(S("pdf_"), K)
        want = p0 / (S("interval_") * SUMK(p0.xreplace({K: KB})))
        rep.check(equal(pv.e, want), "R13.3", "normalize|Histogram", "pdf_[k] <- pdf_[k] / (interval_ * SUM pdf_)",
                  "legacy Normalize turns bin k into %s, not pdf_[k]/(interval_*SUM pdf_) with a floating-point sum: the integral is not one" % str(pv.e)[:200],
                  ln.loc(), sample=True)


def equal_fn(a, b):
    try:
        return sp.simplify(a - b) == 0 or equal(a, b)
    except Exception:
        return False


def is_compound_target(f, s):
    p = f.nodes.get(f.parent.get(s["id"]))
    while p is not None and p.get("k") not in ("assign", "opcall", "expr"):
        p = f.nodes.get(f.parent.get(p["id"]))
    return p is not None and p.get("k") == "assign" and p["op"] == "+=" and unwrap(p["lhs"])["id"] == s["id"]


def post_dominated(g, nid, by_ids):
    """every path from node nid to a normal exit passes one of by_ids"""
    if nid not in g.where:
        return False
    b0, i0 = g.where[nid]
    by_blocks = {}
    for x in by_ids:
        if x in g.where:
            by_blocks.setdefault(g.where[x][0], []).append(g.where[x][1])
    if b0 in by_blocks and any(i >= i0 for i in by_blocks[b0]):
        return True
    avoid = set(by_blocks)
    reach = g.reaches([s for s in g.succs[b0] if s is not None], avoid=avoid)
    for e in g.exit_blocks(normal=True):
        if e in reach or e == b0:
            return False
    return True


def check_site(rep, R, f, site, idx, where):
    key = "%s|%s[%s]" % (where, "bins", show(idx))
    if site["id"] not in R.reached and idx["id"] not in R.reached:
        rep.holds("R13.1", key + "|unreachable", "subscript unreachable", f.loc(site))
        return
    iv = R.value_at(idx)
    if iv is None:
        rep.broken("R13.1", "index expression %s at %s not evaluated" % (show(idx), f.loc(site)))
        return
    ok = R.in_range(iv)
    what = ""
    if not ok:
        lo_ok = R.D.le((0, 0), iv[0])
        hi_ok = R.D.le(iv[1], (1, -1))
        what = "index %s ranges over %s, outside [0, N-1]%s: a write/read outside the histogram" % (
            show(idx), fmt(iv), "" if lo_ok else " (can be negative)" if hi_ok else "")
        if lo_ok and iv[1] == (1, 0):
            what = "index %s ranges over %s: it can equal N (one past the last bin)" % (show(idx), fmt(iv))
    rep.check(ok, "R13.1", key, "index %s in %s within [0, N-1]" % (show(idx), fmt(iv)), what, f.loc(site), sample=True)


def check_normalize_new(rep, norm):
    fo = Fold(norm).run()
    y = Fn("y")(S("data_"))
    st = [e for e in fo.events if e["kind"] == "store" and e["target"].replace(" ", "") == "data_.y()"]
    if len(st) != 1 or isinstance(st[0]["value"], (tuple, sp.Matrix)):
        rep.broken("R13.3", "HistogramNew::Normalize: expected one update of data_.y(), found %d" % len(st))
        return
    val = st[0]["value"]
    scale = sp.cancel(val / y)
    want = 1 / (Fn("sum")(Fn("cwiseAbs")(y)) * S("step_"))
    ok = not scale.has(y.func) or equal(scale, want)
    rep.check(equal(scale, want), "R13.3", "normalize|HistogramNew", "data_.y() <- data_.y() * %s" % scale,
              "HistogramNew::Normalize turns the bins into %s, not y/(sum|y|*step): the integral is not one" % str(val)[:200], norm.loc(st[0]["node"]), sample=True)
    rep.holds("R13.3", "normalize-target|HistogramNew", "all bins scaled (data_.y() updated as a whole)", norm.loc(st[0]["node"]))


def check_binning(rep, where, f, fo, acc, want_arg, Nsym, periodic, do_congruence):
    """the accumulation store: index = floor(want_arg) when inside [0,N), left alone (non-periodic) or wrapped by a true modulo
    (periodic) when outside.  The raw index is touched only through comparisons with 0 and N: one representative per ordering."""
    if not acc:
        rep.broken("R13.2", "%s: no accumulation into the bin array found" % where)
        return
    # one accumulation statement, or several on mutually exclusive paths (early returns): per scenario exactly the one that runs counts
    if any(isinstance(e_["idx"][0], (tuple, sp.Matrix)) for e_ in acc):
        rep.broken("R13.2", "%s: the bin subscript does not fold to a scalar" % where)
        return
    e = acc[0]
    fl = set()
    for e_ in acc:
        fl |= {a for a in sp.preorder_traversal(e_["idx"][0]) if str(getattr(a, "func", "")) == "floor"}
        for g_ in list(e_["guards"]) + [x for gl in e_.get("not", []) for x in gl]:
            fl |= floors_in(g_[0])
    okf = len(fl) == 1 and equal_fn(list(fl)[0].args[0], want_arg)
    rep.check(okf, "R13.2", "index|" + where, "bin index = floor(%s)" % want_arg,
              "%s: the bin index is derived from %s, not floor((v-min)/step + 1/2): values are not assigned to the nearest bin centre" % (
                  where, sorted(str(a) for a in fl)), f.loc(e["node"]), sample=True)
    if not okf:
        return
    flo = list(fl)[0]
    Nn = sp.Symbol("N", positive=True, integer=True)
    conds = getattr(fo, "conds", {})

    Zs = S("_Zraw")
    pre = {Fn("toint")(flo): Zs, flo: Zs}

    def case(zval, per):
        sub = {Fn("toint")(flo): zval, flo: zval, Zs: zval, Nsym: Nn}
        atoms = {periodic: per}
        xs = [executes(e_, sub, atoms) for e_ in acc]
        if any(x is None for x in xs):
            return None, None
        run = [e_ for e_, x in zip(acc, xs) if x]
        if not run:
            return False, None
        if len(run) > 1:
            return True, S("counted_%d_times" % len(run))
        iv = resolve_ite(run[0]["idx"][0].xreplace(pre), lambda cs: decide(conds.get(cs), sub, atoms) if cs in conds else None)
        iv = iv.xreplace(sub) if hasattr(iv, "xreplace") else iv
        return True, iv
    inside = [("0", sp.Integer(0)), ("N-1", Nn - 1)]
    outside = [("-1", sp.Integer(-1)), ("-N-1", -Nn - 1), ("N", Nn), ("2N+3", 2 * Nn + 3)]
    for nm, z in inside:
        for per in (True, False):
            ex, iv = case(z, per)
            if ex is None:
                rep.broken("R13.5", "%s: cannot decide whether the accumulation runs for raw index %s (%speriodic)" % (where, nm, "" if per else "non-"))
                continue
            good = ex is True and not ites(iv) and sp.simplify(iv - z) == 0
            rep.check(good, "R13.2", "%s|inside|%s|%s" % (where, nm, "periodic" if per else "open"), "raw index %s is counted in bin %s" % (nm, nm),
                      "%s: a value whose nearest bin is %s is %s" % (where, nm, "not counted" if ex is not True else "counted in bin %s" % iv), f.loc(e["node"]))
    for nm, z in outside:
        ex, iv = case(z, False)
        if ex is None:
            rep.broken("R13.5", "%s: cannot decide whether the accumulation runs for raw index %s in non-periodic mode" % (where, nm))
        else:
            rep.check(ex is False, "R13.5", "leave|%s|%s" % (where, nm), "non-periodic: raw index %s is discarded" % nm,
                      "%s: in non-periodic mode a value with raw bin index %s (outside [0,N-1]) is still counted (in bin %s)" % (where, nm, iv),
                      f.loc(e["node"]), sample=(nm == "-1"))
        ex, iv = case(z, True)
        if ex is None:
            rep.broken("R13.5", "%s: cannot decide whether the accumulation runs for raw index %s in periodic mode" % (where, nm))
        else:
            rep.check(ex is True, "R13.5", "wrap-counted|%s|%s" % (where, nm), "periodic: raw index %s is counted" % nm,
                      "%s: in periodic mode a value with raw bin index %s is dropped" % (where, nm), f.loc(e["node"]))
    if do_congruence:
        Z = S("_Z")
        izs = [e_["idx"][0].xreplace({Fn("toint")(flo): Z}).xreplace({flo: Z}) for e_ in acc]
        badz = [iz for iz in izs if not congruent(iz, Z, Nsym)]
        rep.check(not badz, "R13.5", "wrap-modulo|" + where, "bin index == raw index (mod N) on every branch",
                  "%s: the wrapped bin index %s is not congruent to the raw index modulo the bin count" % (where, str(badz[0])[:200] if badz else ""), f.loc(e["node"]), sample=True)


def floors_in(c):
    out = set()
    if isinstance(c, tuple):
        for x in c:
            out |= floors_in(x)
    elif hasattr(c, "free_symbols"):
        out |= {a for a in sp.preorder_traversal(c) if str(getattr(a, "func", "")) == "floor"}
    return out


def check_leave_before_write(rep, f, sites, where, periodic_field):
    """in the block guarded by the out-of-range test, the branch taken when periodic_ is false reaches no bin write"""
    g = CFG(f)
    if not sites:
        rep.broken("R13.5", "no accumulation site in " + where)
        return
    # blocks whose terminator condition is the periodic flag
    pblocks = []
    for b in g.blocks:
        c = g.cond_node(b)
        if c is not None and unwrap(c).get("k") == "member" and unwrap(c).get("field") == periodic_field:
            pblocks.append(b)
    cand = [b for b in pblocks if g.term(b).get("class") == "IfStmt"]
    if not cand:
        rep.broken("R13.5", "no branch on the periodic flag in " + where)
        return
    site_blocks = {g.where[s["id"]][0] for s in sites if s["id"] in g.where}
    found = False
    for b in cand:
        false_succ = g.succs[b][1]
        if false_succ is None:
            continue
        # only the branch inside the out-of-range region matters: it must not reach the write within the same iteration
        heads = g.back_edge_heads()
        reach = g.reaches([false_succ], avoid=heads)
        hit = reach & site_blocks
        if g.dominates_block(b, next(iter(site_blocks))):
            continue
        found = True
        rep.check(not hit, "R13.5", "leave|" + where, "non-periodic out-of-range branch leaves before the bin write",
                  "%s: an out-of-range value in non-periodic mode still reaches the bin write" % where, f.loc(g.cond_node(b)), sample=True)
    if not found:
        rep.broken("R13.5", "out-of-range/periodic branch shape not recognised in " + where)
