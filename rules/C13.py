"""C13 - histograms never write outside their bins; binning / normalisation formulas (RANGE + ALG + PATH)."""
import re
import sympy as sp
from vsa import front
from vsa.facts import Facts, unwrap, show, walk, lit_value
from vsa.front import AnalysisBroken
from vsa.interval import Range, fmt
from vsa.alg import Fold, S, F as Fn, equal, canon
from vsa.cfg import CFG

LEVEL = "proof"
T = "votca::tools::"


def run(rep, tier):
    rep.explanation = ("RANGE: interval analysis with a symbolic bin count N over the clang CFG proves 0 <= index <= N-1 at "
                       "every bin subscript; ALG: the bin-index, step and normalisation expressions are folded to "
                       "canonical form and compared with the property's formulas; PATH: out-of-range values leave "
                       "before the write in non-periodic mode; CONST: seeds of running extrema.")
    rep.rule("R13.1", "every subscript of the bin array (data_.y(i) in HistogramNew::Process, pdf_[..] in "
                      "Histogram::ProcessData) has 0 <= index <= N-1 on every path, N the bin count the array was sized with")
    rep.rule("R13.2", "bin index = floor((v-min)/step + 0.5); step = (max-min)/N periodic, (max-min)/(N-1) otherwise, "
                      "1 for N=1; the bin array is sized N before use")
    rep.rule("R13.3", "Normalize: scale = 1/(sum|y| * step) (new), 1/(interval*sum) (legacy); applied multiplicatively to all bins")
    rep.rule("R13.4", "a running minimum is seeded with numeric_limits::max() and a running maximum with lowest() or "
                      "-max(), never with numeric_limits<floating>::min() (smallest positive value)")
    rep.rule("R13.5", "periodic wrap maps onto [0,N-1] by a true modulo; the non-periodic branch leaves (return/continue) "
                      "without touching the bins")
    units = [front.repo("tools/src/libtools/histogramnew.cc"), front.repo("tools/src/libtools/histogram.cc")]
    F = Facts(front.export(units))
    rep.units = units

    # ================================================================ HistogramNew
    proc = F.one(T + "HistogramNew::Process")
    rep.analysed(proc)
    is_N = lambda n: n.get("k") == "member" and n.get("field") == T + "HistogramNew::nbins_"
    R = Range(proc, is_N, nmin=1).run()
    sites = [n for n in proc.walk() if n.get("k") == "mcall" and n.get("callee") in (T + "Table::y", T + "Table::x", T + "Table::yerr", T + "Table::flags")
             and len(n["args"]) == 1 and unwrap(n["obj"]).get("field") == T + "HistogramNew::data_"]
    rep.floor("R13.1", len(sites), 1, "bin subscripts in HistogramNew::Process")
    for s in sites:
        check_site(rep, R, proc, s, unwrap(s["args"][0]), "HistogramNew::Process")

    # sized N before use: Initialize_ calls data_.resize(nbins_) on every path; nbins_ written only in Initialize
    init_ = F.one(T + "HistogramNew::Initialize_")
    rep.analysed(init_)
    rs = [n for n in init_.walk() if n.get("k") == "mcall" and n.get("callee") == T + "Table::resize"
          and unwrap(n["obj"]).get("field") == T + "HistogramNew::data_"]
    ok = False
    if rs:
        a = unwrap(rs[0]["args"][0])
        g = CFG(init_)
        ok = is_N(a) and all(g.dominates_block(g.where[rs[0]["id"]][0], b) for b in g.exit_blocks())
    rep.check(ok, "R13.2", "sized|HistogramNew::Initialize_", "data_.resize(nbins_) dominates every exit",
              "HistogramNew::Initialize_ does not size data_ with nbins_ on every path", init_.loc(rs[0] if rs else None))
    writers = []
    for f in F.funcs:
        if not f.qname.startswith(T + "HistogramNew::"):
            continue
        for n in f.walk():
            if n.get("k") == "assign" and unwrap(n["lhs"]).get("field") == T + "HistogramNew::nbins_":
                writers.append(f)
    wnames = sorted({f.qname.split("::")[-1] for f in writers})
    rep.check(set(wnames) <= {"Initialize", "ProcessRange", "HistogramNew"}, "R13.2", "nbins-writers",
              "nbins_ written only in %s" % wnames, "nbins_ is written in %s without re-sizing data_" % wnames,
              writers[0].loc() if writers else None)
    for w in {f.qname: f for f in writers}.values():
        # each writer must call Initialize_ after the write on every path
        g = CFG(w)
        asg = [n for n in w.walk() if n.get("k") == "assign" and unwrap(n["lhs"]).get("field") == T + "HistogramNew::nbins_"]
        calls = [n for n in w.walk() if n.get("k") == "mcall" and n.get("callee") == T + "HistogramNew::Initialize_"]
        good = bool(calls) and all(post_dominated(g, a["id"], [c["id"] for c in calls]) for a in asg)
        rep.check(good, "R13.2", "resize-after-write|" + w.qname.split("::")[-1], "Initialize_() follows the write of nbins_ on every path",
                  "%s writes nbins_ but does not re-initialise the table on every path" % w.qname, w.loc(asg[0]))

    # bin index formula and step formulas (ALG)
    fo = Fold(proc).run()
    idx_decl = None
    for st in proc.body["stmts"]:
        if st.get("k") == "decl":
            for d in st["decls"]:
                if d["name"] and "long" in d["type"] and d.get("init") is not None:
                    idx_decl = d
                    break
        if idx_decl:
            break
    if idx_decl is None:
        rep.broken("R13.2", "bin index declaration not found in HistogramNew::Process")
    else:
        val = Fold(proc).ev(idx_decl["init"], {})
        v, mn, stp = S("v"), S("min_"), S("step_")
        want = Fn("toint")(Fn("floor")((v - mn) / stp + sp.Rational(1, 2)))
        rep.check(equal_fn(val, want), "R13.2", "index|HistogramNew::Process", "i = %s" % val,
                  "bin index is %s, not floor((v-min)/step + 1/2): values are not assigned to the nearest bin centre" % val,
                  proc.loc(idx_decl), sample=True)
    fi = Fold(init_).run()
    step_stores = [e for e in fi.events if e["kind"] == "store" and e.get("field") == T + "HistogramNew::step_"]
    mx, mn, N = S("max_"), S("min_"), S("nbins_")
    seen = {"periodic": False, "open": False, "one": False}
    for e in step_stores:
        g = [(fi.cond_str(c), pol) for c, pol, _ in e["guards"]]
        val = e["value"]
        if g and g[-1] == ("periodic_", True):
            seen["periodic"] = True
            rep.check(equal(val, (mx - mn) / N), "R13.2", "step|periodic", "step = %s" % val,
                      "periodic step is %s, not (max-min)/N" % val, init_.loc(e["node"]), sample=True)
        elif g and g[-1] == ("periodic_", False):
            seen["open"] = True
            rep.check(equal(val, (mx - mn) / (N - 1)), "R13.2", "step|non-periodic", "step = %s" % val,
                      "non-periodic step is %s, not (max-min)/(N-1): bins are not centred on min+k*step up to max" % val,
                      init_.loc(e["node"]), sample=True)
        elif g and "nbins_" in g[-1][0] and "==" in g[-1][0]:
            seen["one"] = True
            rep.check(equal(val, sp.Integer(1)), "R13.2", "step|N=1", "step = 1 for N == 1", "step for N == 1 is %s" % val,
                      init_.loc(e["node"]))
    for k_, v_ in seen.items():
        if not v_:
            rep.broken("R13.2", "step assignment for case '%s' not recognised in Initialize_" % k_)

    # normalisation
    norm = F.one(T + "HistogramNew::Normalize")
    rep.analysed(norm)
    check_normalize_new(rep, norm)

    # ================================================================ legacy Histogram
    pd = F.one(T + "Histogram::ProcessData")
    rep.analysed(pd)

    def is_N2(n):
        if n.get("k") == "member" and n.get("field") == T + "Histogram::options_t::n_":
            return True
        if n.get("k") == "mcall" and (n.get("callee") or "").endswith("::size") and unwrap(n["obj"]).get("field") == T + "Histogram::pdf_":
            return True
        return False
    R2 = Range(pd, is_N2, nmin=2).run()
    rep.assumptions.append("legacy Histogram: N = options_.n_ >= 2 (its interval is (max-min)/(n-1)); HistogramNew: N >= 1")
    subs = [n for n in pd.walk() if n.get("k") == "opcall" and n.get("op") == "[]" and unwrap(n["args"][0]).get("field") == T + "Histogram::pdf_"]
    rep.floor("R13.1", len(subs), 10, "pdf_ subscripts in Histogram::ProcessData")
    for s in subs:
        check_site(rep, R2, pd, s, unwrap(s["args"][1]), "Histogram::ProcessData")
    # pdf_.assign(options_.n_, 0) dominates all subscripts
    g = CFG(pd)
    asg = [n for n in pd.walk() if n.get("k") == "mcall" and re.search(r"vector<.*>::assign$", n.get("callee") or "") and unwrap(n["obj"]).get("field") == T + "Histogram::pdf_"]
    ok = bool(asg) and is_N2(unwrap(asg[0]["args"][0])) and all(g.dominates(asg[0]["id"], s["id"]) for s in subs)
    rep.check(ok, "R13.2", "sized|Histogram::ProcessData", "pdf_.assign(options_.n_, 0) dominates every subscript",
              "pdf_ is not sized with options_.n_ before it is subscripted", pd.loc(asg[0] if asg else None))

    # legacy bin index and interval
    ii = None
    for n in pd.walk():
        if n.get("k") == "decl":
            for d in n["decls"]:
                if d["name"] == "ii" or ("long" in d["type"] and d.get("init") is not None and unwrap(d["init"]).get("k") == "cast" and ii is None and "floor" in show(d["init"])):
                    ii = d
    if ii is None:
        rep.broken("R13.2", "legacy bin index declaration not found")
    else:
        val = Fold(pd).ev(ii["init"], {})
        free = sorted(val.free_symbols, key=str)
        value_syms = [s for s in free if str(s) not in ("min_", "interval_")]
        ok = False
        if len(value_syms) == 1:
            want = Fn("toint")(Fn("floor")((value_syms[0] - S("min_")) / S("interval_") + sp.Rational(1, 2)))
            ok = equal_fn(val, want)
        rep.check(ok, "R13.2", "index|Histogram::ProcessData", "ii = %s" % val,
                  "legacy bin index is %s, not floor((value-min)/interval + 1/2)" % val, pd.loc(ii), sample=True)
    fp = Fold(pd).run()
    ist = [e for e in fp.events if e["kind"] == "store" and e.get("field") == T + "Histogram::interval_"]
    if len(ist) != 1:
        rep.broken("R13.2", "expected one store to interval_ in ProcessData, found %d" % len(ist))
    else:
        val = ist[0]["value"]
        free = {str(s): s for s in val.free_symbols}
        n_sym = [s for k_, s in free.items() if "n_" in k_]
        # min_/max_ may be ite-terms after the auto-range branch: compare shape (hi - lo)/(n-1) on the node instead
        node = unwrap(ist[0]["node"])
        rhs = unwrap(node["rhs"]) if node.get("k") == "assign" else None
        ok = False
        if rhs is not None and rhs.get("k") == "binop" and rhs["op"] == "/":
            num = unwrap(rhs["lhs"]); den = unwrap(rhs["rhs"])
            while den.get("k") == "cast":
                den = unwrap(den["sub"])
            ok = (show(num) == "(max_ - min_)" and den.get("k") == "binop" and den["op"] == "-" and is_N2(unwrap(den["lhs"]))
                  and lit_value(den["rhs"]) == 1)
        rep.check(ok, "R13.2", "step|legacy", "interval_ = (max_-min_)/(n_-1)", "legacy interval_ is %s, not (max_-min_)/(n_-1)" % show(rhs),
                  pd.loc(node), sample=True)

    # R13.4 extremum seeds
    seeds = []
    for n in pd.walk():
        if n.get("k") == "assign" and n["op"] == "=":
            l = unwrap(n["lhs"])
            r = unwrap(n["rhs"])
            if l.get("k") == "member" and l.get("field") in (T + "Histogram::min_", T + "Histogram::max_"):
                neg = False
                if r.get("k") == "unop" and r["op"] == "-":
                    neg = True
                    r = unwrap(r["sub"])
                if r.get("k") == "call" and "numeric_limits" in (r.get("callee") or ""):
                    seeds.append((l["fname"], ("-" if neg else "") + r["callee"].split("::")[-1], n))
    rep.floor("R13.4", len(seeds), 2, "extremum seeds")
    for fld, seed, n in seeds:
        if fld == "min_":
            ok = seed == "max"
            bad = "running minimum is seeded with numeric_limits::%s()" % seed
        else:
            ok = seed in ("lowest", "-max")
            bad = ("running maximum is seeded with numeric_limits<double>::%s() - the smallest POSITIVE double, so an "
                   "all-negative data set gets max_ ~ 0 and a wrong automatic range" % seed) if seed == "min" else \
                  "running maximum is seeded with numeric_limits::%s()" % seed
        rep.check(ok, "R13.4", "seed|Histogram::ProcessData|" + fld, "%s seeded with %s()" % (fld, seed), bad, pd.loc(n), sample=True)
    # the running extrema use std::min / std::max with the matching field
    upd = 0
    for n in pd.walk():
        if n.get("k") == "assign" and n["op"] == "=":
            l, r = unwrap(n["lhs"]), unwrap(n["rhs"])
            if l.get("k") == "member" and l.get("field") in (T + "Histogram::min_", T + "Histogram::max_") and r.get("k") == "call" and r.get("callee") in ("std::min", "std::max"):
                upd += 1
                want = "std::min" if l["fname"] == "min_" else "std::max"
                args = [show(a) for a in r["args"]]
                rep.check(r["callee"] == want and l["fname"] in args, "R13.4", "update|" + l["fname"], "%s = %s(%s)" % (l["fname"], want, args),
                          "%s is updated with %s(%s)" % (l["fname"], r["callee"], args), pd.loc(n))
    rep.floor("R13.4", upd, 2, "extremum updates")

    # legacy Normalize
    ln = F.one(T + "Histogram::Normalize")
    rep.analysed(ln)
    fl = Fold(ln).run()
    normd = [d for n in ln.walk() if n.get("k") == "decl" for d in n["decls"] if d["name"] == "norm"]
    if not normd:
        rep.broken("R13.3", "legacy Normalize: 'norm' not found")
    else:
        init = unwrap(normd[0]["init"])
        ok = False
        if init.get("k") == "binop" and init["op"] == "/" and lit_value(init["lhs"]) == 1:
            den = unwrap(init["rhs"])
            if den.get("k") == "binop" and den["op"] == "*":
                parts = [unwrap(den["lhs"]), unwrap(den["rhs"])]
                names = [show(p) for p in parts]
                acc = [p for p in parts if p.get("k") == "call" and p.get("callee") == "std::accumulate"]
                ok = "interval_" in names and len(acc) == 1 and lit_value(acc[0]["args"][2]) == 0 and "pdf_" in show(acc[0]["args"][0])
        rep.check(ok, "R13.3", "normalize|Histogram", "norm = 1/(interval_*accumulate(pdf_))", "legacy norm is %s" % show(init), ln.loc(normd[0]), sample=True)

    # R13.5 path shape: non-periodic branch leaves before the write
    check_leave_before_write(rep, proc, sites, "HistogramNew::Process", T + "HistogramNew::periodic_")
    acc_sites = [s for s in subs if is_compound_target(pd, s)]
    check_leave_before_write(rep, pd, acc_sites[:1], "Histogram::ProcessData", T + "Histogram::options_t::periodic_")


def equal_fn(a, b):
    try:
        return sp.simplify(a - b) == 0 or equal(a, b)
    except Exception:
        return False


def is_compound_target(f, s):
    p = f.nodes.get(f.parent.get(s["id"]))
    while p is not None and p.get("k") not in ("assign", "opcall", "expr"):
        p = f.nodes.get(f.parent.get(p["id"]))
    return p is not None and p.get("k") == "assign" and p["op"] == "+=" and unwrap(p["lhs"])["id"] == s["id"]


def post_dominated(g, nid, by_ids):
    """every path from node nid to a normal exit passes one of by_ids"""
    if nid not in g.where:
        return False
    b0, i0 = g.where[nid]
    by_blocks = {}
    for x in by_ids:
        if x in g.where:
            by_blocks.setdefault(g.where[x][0], []).append(g.where[x][1])
    if b0 in by_blocks and any(i >= i0 for i in by_blocks[b0]):
        return True
    avoid = set(by_blocks)
    reach = g.reaches([s for s in g.succs[b0] if s is not None], avoid=avoid)
    for e in g.exit_blocks(normal=True):
        if e in reach or e == b0:
            return False
    return True


def check_site(rep, R, f, site, idx, where):
    key = "%s|%s[%s]" % (where, "bins", show(idx))
    if site["id"] not in R.reached and idx["id"] not in R.reached:
        rep.holds("R13.1", key + "|unreachable", "subscript unreachable", f.loc(site))
        return
    iv = R.value_at(idx)
    if iv is None:
        rep.broken("R13.1", "index expression %s at %s not evaluated" % (show(idx), f.loc(site)))
        return
    ok = R.in_range(iv)
    what = ""
    if not ok:
        lo_ok = R.D.le((0, 0), iv[0])
        hi_ok = R.D.le(iv[1], (1, -1))
        what = "index %s ranges over %s, outside [0, N-1]%s: a write/read outside the histogram" % (
            show(idx), fmt(iv), "" if lo_ok else " (can be negative)" if hi_ok else "")
        if lo_ok and iv[1] == (1, 0):
            what = "index %s ranges over %s: it can equal N (one past the last bin)" % (show(idx), fmt(iv))
    rep.check(ok, "R13.1", key, "index %s in %s within [0, N-1]" % (show(idx), fmt(iv)), what, f.loc(site), sample=True)


def check_normalize_new(rep, norm):
    fo = Fold(norm).run()
    stores = [e for e in fo.events if e["kind"] == "store"]
    # expect  data_.y() *= scale  with scale = 1/(sum|y| * step)
    target = None
    for n in norm.walk():
        if n.get("k") == "opcall" and n.get("op") == "*=":
            target = n
    if target is None:
        rep.broken("R13.3", "HistogramNew::Normalize: no multiplicative update of the bins found")
        return
    rhs = unwrap(target["args"][1])
    val = fo.final_env.get(rhs.get("decl")) if rhs.get("k") == "ref" else None
    s = str(val)
    yy = Fn("sum")(Fn("cwiseAbs")(Fn("y")(S("data_"))))
    ok = False
    if val is not None:
        try:
            cand = 1 / (yy * S("step_"))
            ok = equal(val, cand)
        except Exception:
            ok = False
    rep.check(ok, "R13.3", "normalize|HistogramNew", "scale = %s" % s,
              "HistogramNew::Normalize scales by %s, not 1/(sum|y|*step): the integral is not one" % s, norm.loc(target), sample=True)
    lhs = unwrap(target["args"][0])
    rep.check(show(lhs) == "data_.y()", "R13.3", "normalize-target|HistogramNew", "all bins scaled (data_.y() *= scale)",
              "Normalize scales %s" % show(lhs), norm.loc(target))


def check_leave_before_write(rep, f, sites, where, periodic_field):
    """in the block guarded by the out-of-range test, the branch taken when periodic_ is false reaches no bin write"""
    g = CFG(f)
    if not sites:
        rep.broken("R13.5", "no accumulation site in " + where)
        return
    # blocks whose terminator condition is the periodic flag
    pblocks = []
    for b in g.blocks:
        c = g.cond_node(b)
        if c is not None and unwrap(c).get("k") == "member" and unwrap(c).get("field") == periodic_field:
            pblocks.append(b)
    cand = [b for b in pblocks if g.term(b).get("class") == "IfStmt"]
    if not cand:
        rep.broken("R13.5", "no branch on the periodic flag in " + where)
        return
    site_blocks = {g.where[s["id"]][0] for s in sites if s["id"] in g.where}
    found = False
    for b in cand:
        false_succ = g.succs[b][1]
        if false_succ is None:
            continue
        # only the branch inside the out-of-range region matters: it must not reach the write within the same iteration
        heads = g.back_edge_heads()
        reach = g.reaches([false_succ], avoid=heads)
        hit = reach & site_blocks
        if g.dominates_block(b, next(iter(site_blocks))):
            continue
        found = True
        rep.check(not hit, "R13.5", "leave|" + where, "non-periodic out-of-range branch leaves before the bin write",
                  "%s: an out-of-range value in non-periodic mode still reaches the bin write" % where, f.loc(g.cond_node(b)), sample=True)
    if not found:
        rep.broken("R13.5", "out-of-range/periodic branch shape not recognised in " + where)
