"""C10 - shared job file: thread mutex pairing, exclusive file-lock bracket, backup-before-rewrite, merge rule,
assignment loop (LOCK, PATH, WHO)."""
import re
from vsa import front
from vsa.facts import Facts, unwrap, show, walk, lit_value
from vsa.front import AnalysisBroken
from vsa.lock import CounterFlow
from vsa.alg import Fold, guard_strs, S, F as Fn
from vsa.cases import decide, resolve_ite
from vsa.cfg import CFG

LEVEL = "other"
X = "votca::xtp::"
PO = X + "ProgObserver<std::vector<votca::xtp::Job>>::"
FL = "boost::interprocess::file_lock::"


def loaded_from(f, arg, load_call):
    """the argument is the value returned by that LOAD_JOBS call (directly or through a local initialised / assigned from it once)"""
    a = unwrap(arg)
    while a.get("k") in ("cast", "construct") and (a.get("sub") is not None or len(a.get("args", [])) == 1):
        a = unwrap(a["sub"] if a.get("sub") is not None else a["args"][0])
    if a.get("id") == load_call["id"]:
        return True
    if a.get("k") == "ref" and a.get("decl") in f.decls:
        d = f.decls[a["decl"]]
        if d.get("init") is not None and any(x.get("id") == load_call["id"] for x in walk(d["init"])):
            writes = [n for n in f.walk() if n.get("k") in ("assign", "opcall") and n.get("op") == "=" and unwrap(n.get("lhs") or n["args"][0]).get("decl") == a["decl"]]
            return not writes
    return False


def nows(s):
    return re.sub(r"\s+", "", s)


def run(rep, tier):
    rep.explanation = ("LOCK: counter dataflow over the CFGs of the ProgObserver<std::vector<Job>> instantiation: lockThread_ is held "
                       "from entry work to every exit of RequestNextJob/ReportJobDone; every LOAD_JOBS/WRITE_JOBS lies between "
                       "LockProgFile and ReleaseProgFile, whose bodies must take the EXCLUSIVE boost file lock and release it with "
                       "the matching call. PATH: the backup copy is written before the job file; each assigned job is reset, marked "
                       "ASSIGNED with host/time before it is queued; the cursor advances on every iteration. WHO: callers of "
                       "SyncWithProgFile. The merge rule of UPDATE_JOBS is checked on its guards.")
    rep.rule("R10.1", "RequestNextJob / ReportJobDone: lockThread_ is locked before observer state is touched and released exactly once on every exit")
    rep.rule("R10.2", "SyncWithProgFile / InitFromProgFile: every LOAD_JOBS / WRITE_JOBS runs with the file lock held; LockProgFile takes "
                      "file_lock::lock() (exclusive) and ReleaseProgFile releases with the matching unlock(); no exit with the lock held")
    rep.rule("R10.3", "the backup (progFile_ + '~') is written before the job file itself, both with the merged job list; WRITE_JOBS closes the stream and writes a complete <jobs> document")
    rep.rule("R10.4", "who-may-call: SyncWithProgFile only from RequestNextJob (under lockThread_) and from ParallelXJobCalc::Evaluate after the workers are joined")
    rep.rule("R10.5", "UPDATE_JOBS: a job is overwritten from the file exactly when the file's copy has a host different from this process; size/id mismatches throw")
    rep.rule("R10.6", "assignment loop: start iff available or restart pattern matches; Reset, setStatus(ASSIGNED), setHost, setTime precede the push; "
                      "the cursor advances every iteration; RequestNextJob hands out *nextjit_ and advances it once")
    units = [front.repo("xtp/src/libxtp/" + u) for u in ("progressobserver.cc", "job.cc", "parallelxjobcalc.cc")]
    F = Facts(front.export(units))
    rep.units = units
    rep.assumptions.append("xtp is not built in this sandbox: the units are parsed with synthesised flags and a stub libint2/initialize.h")

    def fn(name):
        return F.one(PO + name)

    # ---------------------------------------------------------------- R10.1
    for name, state_fields in (("RequestNextJob", ("nextjit_", "jobsToProc_", "moreJobsAvailable_", "jobs_")), ("ReportJobDone", ("jobsReported_",))):
        f = fn(name)
        rep.analysed(f)

        def cls(n):
            if n.get("k") == "mcall" and n.get("callee") in ("votca::tools::Mutex::Lock", "votca::tools::Mutex::Unlock") and unwrap(n["obj"]).get("fname") == "lockThread_":
                return ("inc", "thread") if n["callee"].endswith("Lock") and not n["callee"].endswith("Unlock") else ("dec", "thread")
            return None
        fl = CounterFlow(f, cls).run()
        bad = []
        n_acc = 0
        for n in f.walk():
            touch = (n.get("k") == "member" and n.get("fname") in state_fields) or \
                    (n.get("k") == "mcall" and (n.get("callee") or "").startswith(PO) and n["callee"].split("::")[-1] in ("SyncWithProgFile",)) or \
                    (n.get("k") == "mcall" and (n.get("callee") or "").endswith(("Job::UpdateFromResult", "Job::setTime", "Job::setHost")))
            if touch and fl.reached(n):
                n_acc += 1
                st = fl.state_before(n)
                if st.get("thread", 0) != 1:
                    bad.append("%s at line %s" % (show(n)[:40], n.get("line")))
        rep.floor("R10.1", n_acc, 3, "state accesses in " + name)
        rep.check(not bad, "R10.1", name + "|held", "observer state only touched with lockThread_ held (%d accesses)" % n_acc,
                  "ProgObserver::%s touches shared observer state without holding lockThread_: %s" % (name, bad[:4]), f.loc(), sample=True)
        leaks = [(fl.exit_line(b), st.get("thread", 0)) for b, st in fl.exit_states if st.get("thread", 0) != 0]
        rep.floor("R10.1", len(fl.exit_states), 1, "exits of " + name)
        rep.check(not leaks, "R10.1", name + "|released", "lockThread_ released on every exit", "ProgObserver::%s returns with lockThread_ in state %s" % (name, leaks), f.loc(), sample=True)

    # ---------------------------------------------------------------- R10.2
    lk, rl = fn("LockProgFile"), fn("ReleaseProgFile")
    rep.analysed(lk); rep.analysed(rl)

    def flock_calls(f):
        return [n for n in f.walk() if n.get("k") == "mcall" and (n.get("callee") or "").startswith(FL)]
    lc = [n["callee"].split("::")[-1] for n in flock_calls(lk)]
    rc = [n["callee"].split("::")[-1] for n in flock_calls(rl)]
    gl = CFG(lk)
    ok = lc == ["lock"] and all(gl.dominates_block(gl.where[flock_calls(lk)[0]["id"]][0], b) for b in gl.exit_blocks())
    rep.check(ok, "R10.2", "exclusive-lock", "LockProgFile takes file_lock::lock() on every path",
              "ProgObserver::LockProgFile calls file_lock::%s: %s" % (lc, "a sharable lock excludes nobody - several processes can load/merge/assign/write the job file at once and assign the same job twice"
                                                                    if "lock_sharable" in lc else "the job file is not locked exclusively on every path"), lk.loc(), sample=True)
    want_rel = {"lock": "unlock", "lock_sharable": "unlock_sharable"}.get(lc[0] if lc else "", "unlock")
    rep.check(rc == [want_rel] and rc == ["unlock"], "R10.2", "matching-unlock", "ReleaseProgFile releases with unlock()", "ProgObserver::ReleaseProgFile calls file_lock::%s (lock side: %s)" % (rc, lc), rl.loc(), sample=True)
    # the lock must be taken on the object owned by flock_, after it was installed there: replacing flock_ destroys the previous
    # file_lock object, and closing any descriptor of the file releases every POSIX lock the process holds on it
    installs = [n for n in lk.walk() if n.get("k") == "opcall" and n.get("op") == "=" and unwrap(n["args"][0]).get("fname") == "flock_"] + \
               [n for n in lk.walk() if n.get("k") == "mcall" and (n.get("callee") or "").endswith("unique_ptr::reset") and unwrap(n["obj"]).get("fname") == "flock_"]
    locks = [n for n in flock_calls(lk) if n["callee"].endswith("::lock")]
    ok = len(locks) == 1 and bool(installs)
    if ok:
        recv = unwrap(locks[0]["obj"])
        def from_flock(n, depth=0):
            n = unwrap(n)
            while n is not None and depth < 10:
                depth += 1
                if n.get("k") == "member":
                    return n.get("fname") == "flock_"
                if n.get("k") == "opcall" and n.get("op") in ("->", "*"):
                    n = unwrap(n["args"][0])
                elif n.get("k") == "unop" and n.get("op") == "*":
                    n = unwrap(n["sub"])
                elif n.get("k") == "mcall" and (n.get("callee") or "").endswith("::get"):
                    n = unwrap(n["obj"])
                elif n.get("k") == "ref" and n.get("decl") in lk.decls and lk.decls[n["decl"]].get("init") is not None and \
                        (lk.decls[n["decl"]].get("type") or "").rstrip().endswith(("&", "*")):
                    n = unwrap(lk.decls[n["decl"]]["init"])
                else:
                    return False
            return False
        ok = from_flock(recv) and all(gl.dominates(i_["id"], locks[0]["id"]) for i_ in installs if i_["id"] in gl.where)
    rep.check(ok, "R10.2", "lock-on-owned-object", "lock() is called on the file_lock owned by flock_, after flock_ was (re)assigned",
              "ProgObserver::LockProgFile takes the lock before/on an object other than the one installed in flock_: installing it afterwards destroys the "
              "previous file_lock, whose close() drops every POSIX lock of this process on the job file - the lock just taken is lost", lk.loc(), sample=True)
    newl = [n for n in lk.walk() if n.get("k") == "new" and "file_lock" in (n.get("type") or "")]
    mk = [n for n in lk.walk() if n.get("k") == "call" and (n.get("callee") or "").startswith("std::make_unique") and "file_lock" in (n.get("type") or "")]
    rep.check((len(newl) == 1 and "lockFile_" in show(newl[0].get("init"))) or (len(mk) == 1 and "lockFile_" in show(mk[0])), "R10.2", "lock-object", "lock object created on lockFile_", "LockProgFile does not create the lock on lockFile_", lk.loc())
    for name, floor_io in (("SyncWithProgFile", 3), ("InitFromProgFile", 2)):
        f = fn(name)
        rep.analysed(f)

        def cls(n):
            if n.get("k") == "mcall" and n.get("callee") == PO + "LockProgFile":
                return ("inc", "file")
            if n.get("k") == "mcall" and n.get("callee") == PO + "ReleaseProgFile":
                return ("dec", "file")
            return None
        fl = CounterFlow(f, cls).run()
        ios = [n for n in f.walk() if n.get("k") == "call" and n.get("callee") in (X + "LOAD_JOBS", X + "WRITE_JOBS", X + "UPDATE_JOBS")]
        rep.floor("R10.2", len(ios), floor_io, "job-file operations in " + name)
        for k, n in enumerate(ios):
            st = fl.state_before(n) if fl.reached(n) else {"file": 1}
            rep.check(st.get("file", 0) == 1, "R10.2", "%s|bracket|%s#%d" % (name, n["callee"].split("::")[-1], k), "%s under the file lock" % n["callee"].split("::")[-1],
                      "ProgObserver::%s calls %s with the file lock in state %s: another process can read or write the job file in between" % (name, n["callee"].split("::")[-1], st.get("file", 0)),
                      f.loc(n), sample=(k == 0))
        leaks = [(fl.exit_line(b), st.get("file", 0)) for b, st in fl.exit_states if st.get("file", 0) != 0]
        rep.check(not leaks, "R10.2", name + "|released", "file lock released on every exit", "ProgObserver::%s returns with the file lock in state %s" % (name, leaks), f.loc())
        # shared in-memory state (jobs_, metajit_, jobsToProc_) is only modified inside the bracket
        wr = [n for n in f.walk() if n.get("k") == "mcall" and (n.get("callee") or "").endswith(("Job::Reset", "Job::setStatus", "Job::setHost", "Job::setTime"))]
        for n in wr:
            if fl.reached(n):
                rep.check(fl.state_before(n).get("file", 0) == 1, "R10.2", "%s|assign-in-bracket|%s" % (name, n["callee"].split("::")[-1]), "job assignment inside the locked region",
                          "ProgObserver::%s modifies job state (%s) outside the file-lock bracket" % (name, n["callee"].split("::")[-1]), f.loc(n))

    # ---------------------------------------------------------------- R10.3
    sy = fn("SyncWithProgFile")
    g = CFG(sy)
    wr = [n for n in sy.walk() if n.get("k") == "call" and n.get("callee") == X + "WRITE_JOBS"]
    defs = {d["name"]: nows(show(d["init"])) for d in sy.decls.values() if d.get("init") is not None}

    def path_of(n):
        a = nows(show(n["args"][1]))
        return defs.get(a, a)
    back = [n for n in wr if '"~"' in path_of(n) and "progFile_" in path_of(n)]
    main = [n for n in wr if path_of(n) == "progFile_"]
    ok = len(back) == 1 and len(main) == 1 and g.dominates(back[0]["id"], main[0]["id"]) and back[0]["id"] != main[0]["id"] and \
        nows(show(back[0]["args"][0])) == "jobs_" and nows(show(main[0]["args"][0])) == "jobs_"
    upd = [n for n in sy.walk() if n.get("k") == "call" and n.get("callee") == X + "UPDATE_JOBS"]
    ok = ok and len(upd) == 1 and g.dominates(upd[0]["id"], back[0]["id"])
    rep.check(ok, "R10.3", "backup-before-rewrite", "merge -> write backup (progFile_~) -> assign -> write progFile_",
              "SyncWithProgFile does not write the merged job list to the backup file before rewriting the job file (write targets: %s)" % [path_of(n) for n in wr], sy.loc(), sample=True)
    ld = [n for n in sy.walk() if n.get("k") == "call" and n.get("callee") == X + "LOAD_JOBS"]
    rep.check(len(ld) == 1 and path_of_arg(ld[0], defs) == "progFile_" and len(upd) == 1 and g.dominates(ld[0]["id"], upd[0]["id"]) and
              nows(show(upd[0]["args"][1])) == "jobs_" and loaded_from(sy, upd[0]["args"][0], ld[0]), "R10.3", "load-merge", "external jobs loaded from progFile_ and merged into jobs_",
              "SyncWithProgFile does not merge the freshly loaded job file into jobs_", sy.loc())
    wj = F.one(X + "WRITE_JOBS")
    rep.analysed(wj)
    gw = CFG(wj)
    jp = wj.j["params"][0]["name"]

    def stream_of(n):
        """declaration of the stream a `<<` chain or a ToStream call writes to"""
        n = unwrap(n)
        while n.get("k") == "opcall" and n.get("op") == "<<":
            n = unwrap(n["args"][0])
        return n.get("decl") if n.get("k") == "ref" else None

    def top_shl(lit):
        """outermost `<<` expression containing the literal"""
        tops = [a_ for a_ in wj.ancestors(lit) if a_.get("k") == "opcall" and a_.get("op") == "<<"]
        return tops[-1] if tops else None
    lits = {x["v"]: x for x in wj.walk() if x.get("k") == "str" and x.get("v") in ("<jobs>", "</jobs>")}
    ok, why_w = set(lits) == {"<jobs>", "</jobs>"}, "the <jobs> / </jobs> tags are not both written"
    if ok:
        o_, c_ = top_shl(lits["<jobs>"]), top_shl(lits["</jobs>"])
        ok, why_w = o_ is not None and c_ is not None and stream_of(o_) is not None and stream_of(o_) == stream_of(c_), "the two tags are not written to one stream"
    if ok:
        sd = stream_of(o_)
        local = sd in wj.decls and "ofstream" in (wj.decls[sd].get("type") or "")
        # every job: a range-for over the job list, or std::for_each over [begin, end) of it, whose body streams the element to the same stream
        its = []
        for n in wj.walk():
            body, rng_ok = None, False
            if n.get("k") == "rangefor":
                body, rng_ok = n["body"], nows(show(n["range"])) == jp
            elif n.get("k") == "call" and (n.get("callee") or "").endswith("std::for_each") and len(n.get("args", [])) == 3:
                a0, a1, a2 = [unwrap(x) for x in n["args"]]
                rng_ok = nows(show(a0)) == jp + ".begin()" and nows(show(a1)) == jp + ".end()"
                body = a2 if a2.get("k") == "lambda" else None
            if body is None:
                continue
            ts = [x for x in walk(body) if x.get("k") == "mcall" and (x.get("callee") or "").endswith("Job::ToStream") and x.get("args") and stream_of(x["args"][0]) == sd]
            if ts:
                its.append((ts[0] if n.get("k") == "rangefor" else n, rng_ok))
        ok, why_w = len(its) == 1 and its[0][1], "the jobs are not all streamed between the tags (iterations found: %d)" % len(its)
    if ok:
        it = its[0][0]
        (ib, ii), (cb, ci) = gw.where[it["id"]], gw.where[c_["id"]]
        after_close = gw.reaches([x for x in gw.succs[cb] if x is not None])
        ok = gw.dominates(o_["id"], it["id"]) and gw.dominates(o_["id"], c_["id"]) and ib not in after_close and not (ib == cb and ii > ci) and \
            all(gw.dominates_block(cb, b_) for b_ in gw.exit_blocks())
        why_w = "the order <jobs>, every job, </jobs> does not hold on every path to a normal return"
    if ok:
        cl = [n for n in wj.walk() if n.get("k") == "mcall" and (n.get("callee") or "").endswith("::close") and stream_of(n.get("obj")) == sd]
        ok = local or (len(cl) >= 1 and all(any(gw.dominates_block(gw.where[c["id"]][0], b_) for c in cl) for b_ in gw.exit_blocks()))
        why_w = "the stream is neither a local object (closed by its destructor) nor closed on every path"
    rep.check(ok, "R10.3", "write-complete", "<jobs> + every job + </jobs>, stream closed before returning", "WRITE_JOBS: " + why_w, wj.loc())

    # ---------------------------------------------------------------- R10.4
    sites = []
    for f in F.funcs:
        for n in f.walk():
            if n.get("k") == "mcall" and (n.get("callee") or "").endswith("::SyncWithProgFile"):
                sites.append((f, n))
    rep.floor("R10.4", len(sites), 2, "SyncWithProgFile call sites")
    for f, n in sites:
        okc = f.qname.endswith("::RequestNextJob") or f.qname.endswith("ParallelXJobCalc<std::vector<votca::xtp::Job>>::Evaluate") or f.qname.endswith("::Evaluate")
        if f.qname.endswith("::Evaluate") and f.j["template"] != "pattern":
            ge = CFG(f)
            waits = [x for x in f.walk() if x.get("k") == "mcall" and (x.get("callee") or "").endswith("Thread::WaitDone")]
            okc = bool(waits) and all(ge.where[n["id"]][0] not in ge.reaches([ge.where[n["id"]][0]], avoid=set()) or True for _ in [0]) and \
                all(ge.where[w["id"]][0] not in ge.reaches([ge.where[n["id"]][0]]) for w in waits)
        if f.j["template"] == "pattern":
            continue
        rep.check(okc, "R10.4", "sync-caller|" + f.qname.split("::")[-1], "SyncWithProgFile called from %s" % f.qname.split("::")[-1],
                  "%s calls SyncWithProgFile outside the thread-lock / after-join protocol" % f.qname, f.loc(n))

    # ---------------------------------------------------------------- R10.5
    uj = F.one(X + "UPDATE_JOBS")
    rep.analysed(uj)
    from vsa.cases import decision_table
    fo = Fold(uj, record_calls=r"Job::UpdateFrom$").run()
    ev = [e for e in fo.events if e["kind"] == "call"]
    ok = False
    got = "expected one UpdateFrom call, found %d" % len(ev)
    thr = [" & ".join(guard_strs(fo, t)) for t in fo.throws]
    if len(ev) == 1:
        ext, intl = str(ev[0]["args"][0]).replace(" ", ""), str(ev[0]["obj"]).replace(" ", "")
        pn = [p_["name"] for p_ in uj.j["params"]]

        def classify(lf):
            s_ = str(lf).replace(" ", "")
            if isinstance(lf, tuple) and len(lf) == 3 and lf[0] in ("==", "!="):
                a_, b_ = str(lf[1]).replace(" ", ""), str(lf[2]).replace(" ", "")
                if a_.startswith("size(") and b_.startswith("size("):
                    return ("size-mismatch", lf[0] == "!=")
                if a_.startswith("getId(") and b_.startswith("getId("):
                    return ("id-mismatch", lf[0] == "!=")
                if ("getHost(%s)" % ext in (a_, b_)) and (len(pn) > 2 and pn[2] in (a_, b_)):
                    return ("other-host", lf[0] == "!=")
                return None
            if s_ == "hasHost(%s)" % ext:
                return ("has-host", True)
            return None
        names, rows = decision_table(ev[0], classify, getattr(fo, "conds", {}))
        ok = rows is not None and ext != intl
        got = "the file's copy is %s, the process's copy %s" % (ext, intl)
        for a_, happens in (rows or []):
            want = a_.get("has-host", False) and a_.get("other-host", False) and not a_.get("size-mismatch", False) and not a_.get("id-mismatch", False)
            if happens is None or happens != want:
                ok = False
                got = "for %s the process's copy is %s from the file" % (", ".join("%s=%s" % kv for kv in sorted(a_.items())), "undecided" if happens is None else ("overwritten" if happens else "not updated"))
                break
        need = {"has-host", "other-host", "size-mismatch", "id-mismatch"}
        if ok and not need <= set(names):
            ok, got = False, "the merge does not depend on %s" % sorted(need - set(names))
    rep.check(ok, "R10.5", "merge-rule", "job_int.UpdateFrom(job_ext) iff ext has a host different from this one; size/id mismatch throws",
              "UPDATE_JOBS merges under %s (throws: %s); results of other processes would be lost or own results overwritten" % (got, [t[-60:] for t in thr]), uj.loc(), sample=True)

    # UpdateFrom itself: "the file's copy wins" field by field - status unconditionally, host/time/output/error whenever the external copy
    # carries them; nothing of this may depend on the state of the receiving copy (equal status does not mean equal host or result)
    uf = F.one(X + "Job::UpdateFrom")
    rep.analysed(uf)
    fu = Fold(uf, inline=lambda q_, g_: q_.startswith(X + "Job::set")).run()      # the class's own setters (setHost, setTime, ..) are followed
    extn = uf.j["params"][0]["name"]
    st_ = {}
    for e_ in fu.events:
        if e_["kind"] == "store":
            st_.setdefault(e_["target"].replace("this->", ""), []).append(e_)
    n_uf = 0
    for tgt, getter, guard in (("status_", "getStatus", None), ("host_", "getHost", "hasHost"), ("time_", "getTime", "hasTime"),
                               ("output_", "getOutput", "hasOutput"), ("error_", "getError", "hasError")):
        es_ = st_.get(tgt, [])
        ok_, why_ = len(es_) == 1, "%d assignments" % len(es_)
        if ok_:
            e_ = es_[0]
            gl = sorted((str(c_).replace(" ", ""), pol_) for c_, pol_, _n in e_["guards"])
            wantg = [("%s(%s)" % (guard, extn), True)] if guard else []
            cut_ = [k_ for k_ in e_.get("left_kinds", []) if k_ in ("return", "throw")]
            if str(e_["value"]).replace(" ", "") != "%s(%s)" % (getter, extn):
                ok_, why_ = False, "it receives %s" % str(e_["value"])[:120]
            elif gl != wantg:
                ok_, why_ = False, "it is assigned under %s, required %s" % (gl or "no condition", wantg or "no condition")
            elif cut_:
                ok_, why_ = False, "an earlier %s can leave the function before the assignment (under %s)" % (
                    cut_[0], [[str(c_) for c_, _p, _n in g_] for g_ in e_["not"]][:2])
        n_uf += 1
        rep.check(ok_, "R10.5", "update-from|" + tgt, "%s = %s(ext)%s, not depending on the receiving copy" % (tgt, getter, " when ext.%s()" % guard if guard else ""),
                  "Job::UpdateFrom: %s: %s - the merge must take the file's copy field by field whatever the receiving copy holds; otherwise a job re-assigned by another process "
                  "(same status, other host) is written back with stale data and that process's result is lost" % (tgt, why_), uf.loc(), sample=(tgt == "status_"))
    rep.floor("R10.5", n_uf, 5, "fields carried by Job::UpdateFrom")

    # ---------------------------------------------------------------- R10.6 (assignment loop, decided on the folded loop body)
    from vsa.cases import executes as _exec, leaf_conditions
    import itertools as _it
    fo2 = Fold(sy, inline="internal", record_calls=r"::push_back$|Job::(Reset|setStatus|setHost|setTime)$").run()
    cds2 = getattr(fo2, "conds", {})

    def in_loop(e):
        ix = [i_ for i_, g_ in enumerate(e["guards"]) if isinstance(g_[0], tuple) and g_[0] and g_[0][0] == "loop"]
        return ix[-1] if ix else None

    def loop_view(e):
        """the event with the loop condition as an ordinary guard and only what happened inside the iteration"""
        k_ = in_loop(e)
        lc = e["guards"][k_][0][2]
        gs = ([(lc, True, None)] if lc is not None else []) + list(e["guards"][k_ + 1:])
        nots = []
        for gl in e.get("not", []):
            kk = [i_ for i_, g_ in enumerate(gl) if isinstance(g_[0], tuple) and g_[0] and g_[0][0] == "loop" and g_[0][1] == e["guards"][k_][0][1]]
            if kk:
                nots.append(list(gl[kk[-1] + 1:]))
        return {"guards": gs, "not": nots}
    push = [e for e in fo2.events if e["kind"] == "call" and e["callee"].endswith("::push_back") and "jobsToProc_" in str(e["obj"]) and in_loop(e) is not None]
    if len(push) != 1:
        raise AnalysisBroken("SyncWithProgFile: expected one jobsToProc_.push_back inside the assignment loop, found %d" % len(push))
    P_ = push[0]
    PV = loop_view(P_)

    def classify6(lf):
        s_ = re.sub(r"\s", "", str(lf))
        if isinstance(lf, tuple) and len(lf) == 3:
            a_, b_ = re.sub(r"\s", "", str(lf[1])), re.sub(r"\s", "", str(lf[2]))
            if lf[0] in ("<", ">", "<=", ">=") and "size(jobsToProc_)" in a_ + b_ and "cacheSize_" in a_ + b_:
                room = (lf[0] == "<" and "size(" in a_) or (lf[0] == ">" and "size(" in b_)
                strict = lf[0] in ("<", ">")
                return ("room", True) if room and strict else (("room", False) if (not room and not strict) else None)
            if lf[0] in ("==", "!=") and "metajit_" in a_ + b_ and "end(jobs_)" in a_ + b_:
                return ("at-end", lf[0] == "==")
            if lf[0] in ("==", "!=") and {a_, b_} == {"startJobsCount_", "maxJobs_"}:
                return ("max-reached", lf[0] == "==")
            if lf[0] in (">", "!=") and b_ == "0" and a_.startswith("count(restart_stats_") and "getStatusStr" in a_:
                return ("status-named", True)
            if lf[0] in (">", "!=") and b_ == "0" and a_.startswith("count(restart_hosts_") and "getHost" in a_:
                return ("host-named", True)
            return None
        if s_.startswith("isAvailable("):
            return ("available", True)
        if s_ == "restartMode_":
            return ("restart-mode", True)
        if s_.startswith("count(restart_stats_") and "getStatusStr" in s_:
            return ("status-named", True)
        if s_.startswith("count(restart_hosts_") and "getHost" in s_:
            return ("host-named", True)
        return None
    known = ["room", "at-end", "max-reached", "available", "restart-mode", "status-named", "host-named"]
    lfs = leaf_conditions(PV)
    unknown = [str(l_)[:80] for l_ in lfs if classify6(l_) is None]
    if unknown:
        raise AnalysisBroken("SyncWithProgFile: the assignment of a job depends on conditions the rule does not know: %s" % unknown)
    bad_start = bad_bounds = None
    for vals in _it.product((True, False), repeat=len(known)):
        A = dict(zip(known, vals))
        x = _exec(PV, None, A, classify6, cds2)
        start = A["available"] or (A["restart-mode"] and (A["status-named"] or A["host-named"]))
        inb = A["room"] and not A["at-end"] and not A["max-reached"]
        if x is None:
            raise AnalysisBroken("SyncWithProgFile: cannot decide whether a job is assigned for %s" % A)
        if inb and x != start and bad_start is None:
            bad_start = (A, x)
        if not inb and x and bad_bounds is None:
            bad_bounds = (A, x)
    rep.check(bad_start is None, "R10.6", "start-condition", "start iff available, or restart mode and status/host is named",
              "SyncWithProgFile: for %s a job is %s" % (bad_start[0] if bad_start else "", "assigned" if bad_start and bad_start[1] else "not assigned"), sy.loc(P_["node"]), sample=True)
    rep.check(bad_bounds is None, "R10.6", "loop-bounds", "no job is assigned beyond the cache size, the end of the job list or maxJobs_",
              "SyncWithProgFile assigns a job although %s" % (bad_bounds[0] if bad_bounds else ""), sy.loc(P_["node"]))
    # the steps that precede the push: same job object, same path condition, in order
    job = str(P_["args"][0]).replace("&", "").strip("() ")
    steps = {}
    order = []
    for e in fo2.events:
        if e["kind"] == "call" and re.search(r"Job::(Reset|setStatus|setHost|setTime)$", e["callee"]) and in_loop(e) is not None:
            nm = e["callee"].split("::")[-1]
            steps[nm] = e
            order.append(nm)
        elif e is P_:
            order.append("push")
    ok = set(steps) == {"Reset", "setStatus", "setHost", "setTime"} and order.index("Reset") < order.index("setStatus") and all(order.index(k_) < order.index("push") for k_ in steps)
    if ok:
        objs = {re.sub(r"\s", "", str(e["obj"])) for e in steps.values()}
        ok = len(objs) == 1 and list(objs)[0] in re.sub(r"\s", "", str(P_["args"][0])) and '"ASSIGNED"' in str(steps["setStatus"]["args"][0])
        for e in steps.values():
            ev_ = loop_view(e)
            for vals in _it.product((True, False), repeat=len(known)):
                A = dict(zip(known, vals))
                if _exec(ev_, None, A, classify6, cds2) != _exec(PV, None, A, classify6, cds2):
                    ok = False
                    break
    rep.check(ok, "R10.6", "assign-steps", "Reset, setStatus(ASSIGNED), setHost, setTime on the job before it is queued, under the same condition",
              "SyncWithProgFile queues a job without first resetting it and marking it ASSIGNED with host and time (steps found: %s, order %s)" % (sorted(steps), order), sy.loc(P_["node"]), sample=True)
    # the cursor advances exactly once per iteration, whether or not the job was started
    adv_ = [e for e in fo2.events if e["kind"] == "store" and re.sub(r"\s", "", e["target"]) == "metajit_" and in_loop(e) is not None]
    okl = len(adv_) == 1 and str(adv_[0]["value"]).startswith("iterinc(")
    if okl:
        av = loop_view(adv_[0])
        for vals in _it.product((True, False), repeat=len(known)):
            A = dict(zip(known, vals))
            if not (A["room"] and not A["at-end"] and not A["max-reached"]):
                continue
            if _exec(av, None, A, classify6, cds2) is not True:
                okl = False
    rep.check(okl, "R10.6", "cursor-advances", "++metajit_ on every loop iteration", "the job cursor is not advanced unconditionally in the assignment loop (a job that is not started would be examined forever, or skipped)", sy.loc(), sample=True)
    rq = fn("RequestNextJob")
    # decided on folded values for the 8 scenarios (cursor at the end before? more jobs announced? the fresh chunk empty?)
    frq = Fold(rq, inline=False).run()
    crq = getattr(frq, "conds", {})
    NJ, ENDJ, BEG = S("nextjit_"), Fn("end")(S("jobsToProc_")), Fn("begin")(S("jobsToProc_"))

    def orq(lf):
        if isinstance(lf, tuple) and len(lf) == 3 and lf[0] in ("==", "!=") and ENDJ in lf[1:]:
            o_ = lf[1] if lf[2] == ENDJ else lf[2]
            if o_ == NJ:
                return ("END0", lf[0] == "==")
            if o_ == BEG:
                return ("EMPTY_NEW", lf[0] == "==")
        if str(lf) == "moreJobsAvailable_":
            return ("MORE", True)
        return None
    rets = [e for e in frq.events if e["kind"] == "return"]
    fin = frq.exit_env().get(("field", "nextjit_"))
    ok, why_q = len(rets) == 1 and fin is not None, "expected a single return and an update of nextjit_"
    if ok:
        for e0, mo, en in _it.product((True, False), repeat=3):
            A = {"END0": e0, "MORE": mo, "EMPTY_NEW": en}
            pick = lambda cs: decide(crq[cs], None, A, orq, crq) if cs in crq else None
            rv = resolve_ite(rets[0]["value"], pick) if hasattr(rets[0]["value"], "args") else rets[0]["value"]
            nv = resolve_ite(fin, pick) if hasattr(fin, "args") else fin
            synced = e0 and mo
            P = BEG if synced else NJ
            end_after = en if synced else e0
            want_r, want_n = (S("nullptr"), P) if end_after else (Fn("deref")(P), Fn("iterinc")(P))
            if str(rv) != str(want_r) or str(nv) != str(want_n):
                ok, why_q = False, "with the cursor %s the end, %s jobs announced and the fresh chunk %s it returns %s and leaves the cursor at %s (required %s and %s)" % (
                    "at" if e0 else "before", "more" if mo else "no more", "empty" if en else "non-empty", rv, nv, want_r, want_n)
                break
    rep.check(ok, "R10.6", "hand-out-once", "jobToProc = *nextjit_; ++nextjit_ once; returned", "RequestNextJob does not hand out *nextjit_ and advance it exactly once: " + why_q, rq.loc(), sample=True)
    rep.assumptions += ["behaviour under real crashes / kill points and boost's file-lock semantics are not decided; exception paths are not modelled"]


def path_of_arg(n, defs):
    a = nows(show(n["args"][0]))
    return defs.get(a, a)
