"""C15 - classical multipole interactions (thin): the damped dipole-dipole (Thole) tensor and the monopole term (ALG)."""
import re
import sympy as sp
from sympy import Matrix
from vsa import front
from vsa.facts import Facts, unwrap, show, walk, lit_value
from vsa.front import AnalysisBroken
from vsa.alg import Fold, S, F as Fn, is_zero, vec_atoms
from rules.C07 import NormAtoms

LEVEL = "proof"
X = "votca::xtp::"


def nows(s):
    return re.sub(r"\s+", "", s)


def check_induced_field(rep, F):
    fs = [f_ for f_ in F.funcs if f_.qname == X + "eeInteractor::ApplyInducedField_site" and f_.j["template"] != "pattern"]
    rep.floor("R15.7", len(fs), 1, "instantiations of eeInteractor::ApplyInducedField_site")
    for k_, f_ in enumerate(fs):
        rep.analysed(f_)
        src = f_.j["params"][0]["name"]
        reads = [n for n in f_.walk() if n.get("k") == "mcall" and show(unwrap(n.get("obj") or {})) == src]
        names = sorted({(n.get("callee") or "").split("::")[-1] for n in reads})
        # the vector multiplied with the transposed Thole tensor
        prod = [n for n in f_.walk() if n.get("k") in ("opcall", "binop") and n.get("op") == "*" and "transpose" in show(n) and src in show(n)]
        fed = sorted({(m.get("callee") or "").split("::")[-1] for n in prod for m in walk(n) if m.get("k") == "mcall" and show(unwrap(m.get("obj") or {})) == src})
        ok = names == ["Induced_Dipole"] and fed == ["Induced_Dipole"]
        rep.check(ok, "R15.7", "induced-field-source#%d" % (k_ + 1), "field += T^T * %s.Induced_Dipole()" % src,
                  "eeInteractor::ApplyInducedField_site multiplies the Thole tensor with %s of the source site (moments read from it: %s); required is the induced dipole only - with a "
                  "permanent dipole on the source the accumulated field is off by T_thole * mu_permanent and no longer equals the derivative of the pair energy with respect to the dipole"
                  % (fed or "nothing recognised", names), f_.loc(prod[0]) if prod else f_.loc(), sample=(k_ == 0))


def run(rep, tier):
    rep.explanation = ("Only the damped dipole-dipole interaction tensor and the monopole factor are decided: FillTholeInteraction is folded "
                       "to T = -3 l5 a a^T + l3 I over the unit vector a (norm as a positive atom R with R^2 = |posB-posA|^2); symmetry, the "
                       "undamped limit (l3 = l5 = R^-3, traceless) and the damping factors are exact identities. The bulk of the property "
                       "(exchange symmetry, rotation invariance, higher-rank blocks, field/energy derivative relation) is not decided.")
    rep.rule("R15.1", "Thole tensor: T = -3 l5 a a^T + l3 I with a the unit vector from A to B; T = T^T; for au3 >= 40 l3 = l5 = R^-3 so tr T = 0; "
                      "damped: l3 = R^-3 (1 - e^-u), l5 = R^-3 (1 - (1+u) e^-u), u = expdamping R^3 s1 s2")
    rep.rule("R15.2", "monopole: the charge-charge entry of VSiteA<N> is q_B/|posB - posA| (read off the folded interaction vector)")
    rep.rule("R15.4", "callers that contract VSiteA<N>(A, B) with A's multipole vector Q(A): the 4-component form (charge + dipole of A) is chosen only when rank(A) < 2, "
                      "for every combination of the two ranks; with rank(A) = 2 the 9-component form is used (else A's quadrupole terms are dropped and E(A,B) != E(B,A))")
    rep.rule("R15.5", "StaticSite::Rotate(R, ref) rotates every moment the site carries: position ref + R (pos - ref); dipole components R d whenever rank > 0; "
                      "quadrupole spherical(R C R^T) whenever rank > 1 (rotation invariance of the pair energy needs positions and moments to turn together)")
    rep.rule("R15.7", "ApplyInducedField_site: the field added to the polarisable site is T_thole(site1, site2)^T times the INDUCED dipole of the source; no other moment of the "
                      "source is read there (its permanent moments act through ApplyStaticField: reading the total dipole counts the permanent dipole twice and breaks field = dE/dmu)")
    rep.rule("R15.6", "VSiteA<N>(A, B) = T(R, u) Q(B) with T the interaction tensor of the Cartesian multipole expansion, (q_A + mu_A.d + Theta_A:dd/3)(q_B - mu_B.d + "
                      "Theta_B:dd/3) 1/|r|, in real spherical components, for N = 4, 9 and rank(B) = 0, 1, 2, block by block; T depends on posB - posA only and not on A's "
                      "moments. The expansion tensor satisfies T_ij(u) = T_ji(-u) (the pair energy does not depend on the order of the sites), T_00 = 1/R, is a contraction "
                      "of Cartesian tensors (rotation invariance) and is the small-cluster limit of point-charge clusters; CalculateCartesianMultipole is the matching "
                      "spherical->Cartesian map and CalculateSphericalMultipole its inverse")
    rep.rule("R15.3", "VSiteA<N>: the interaction block (rank a of site A) x (rank b of site B) is accumulated exactly once whenever A carries rank a "
                      "(N = 1, 4, 9) and B carries rank b (getRank() >= b), for all nine rank pairs - no pair is dropped or doubled by the rank gating")
    units = [front.repo("xtp/src/libxtp/eeinteractor.cc")]
    F = Facts(front.export(units))
    rep.units = units
    rep.assumptions.append("xtp is not built in this sandbox: the unit is parsed with synthesised flags")
    f = F.one(X + "eeInteractor::FillTholeInteraction")
    rep.analysed(f)
    NA = NormAtoms()
    pA, pB = vec_atoms("posA"), vec_atoms("posB")

    def call(fold, n, env):
        cal = n.get("callee") or ""
        short = cal.split("::")[-1]
        if n.get("k") == "mcall" and short == "getPos":
            return pB if "site2" in show(n["obj"]) else pA
        if n.get("k") == "mcall" and short == "norm":
            v = fold.ev(n["obj"], env)
            if isinstance(v, Matrix):
                return NA.norm(v)
        return NotImplemented
    fo = Fold(f, call=call).run()
    if len(fo.returns) != 1 or not isinstance(fo.returns[0][0], Matrix):
        raise AnalysisBroken("FillTholeInteraction does not fold to one 3x3 return")
    T = fo.returns[0][0]          # diagonal updates of the local result matrix are already applied by the fold
    # a = (posB - posA)/R is what the tensor must be built from; l5 and l3 are read off the folded tensor itself
    d0v = (pB - pA)
    Rn0 = NA.norm(d0v)
    a = d0v / Rn0
    l5 = -T[0, 1] / (3 * a[0] * a[1])
    l3 = T[0, 0] + 3 * l5 * a[0] ** 2
    want = -3 * l5 * a * a.T + l3 * sp.eye(3)
    from sympy.core.function import AppliedUndef
    frozen = {}

    def freeze(e):
        def rep_(x):
            return frozen.setdefault(x, sp.Symbol("Z%d" % len(frozen), real=True))
        return e.replace(lambda x: isinstance(x, AppliedUndef) or isinstance(x, sp.exp), rep_)
    rz = NA.reduce_zero
    NA.reduce_zero = lambda e: rz(freeze(e))
    rep.check(all(NA.reduce_zero(T[i, j] - want[i, j]) for i in range(3) for j in range(3)), "R15.1", "form", "T = -3 l5 a a^T + l3 I",
              "FillTholeInteraction does not return -3*lambda5*a*a^T + lambda3*I", f.loc(), sample=True)
    rep.check(all(NA.reduce_zero(T[i, j] - T[j, i]) for i in range(3) for j in range(i)), "R15.1", "symmetric", "T = T^T", "the Thole tensor is not symmetric", f.loc(), sample=True)
    Rn = NA.atoms[0][0] if NA.atoms else None
    unit = sum(x * x for x in a)
    rep.check(Rn is not None and NA.reduce_zero(unit - 1), "R15.1", "unit-vector", "a is the unit vector (posB - posA)/R", "a is not normalised: a.a = %s" % sp.simplify(unit), f.loc())
    d0 = (pB - pA)
    rep.check(all(NA.reduce_zero(a[k] - d0[k] / Rn) for k in range(3)) if Rn is not None else False, "R15.1", "direction", "a points from A to B", "a is not (posB - posA)/R", f.loc())

    def branch(e, take_then):
        def pick(x):
            return x.args[1] if take_then else x.args[2]
        return e.replace(lambda x: str(getattr(x, "func", "")) == "ite" and len(x.args) == 3, pick)
    u = S("expdamping_") * Rn ** 3 * Fn("getSqrtInvEigenDamp")(S("site1")) * Fn("getSqrtInvEigenDamp")(S("site2"))
    l3u, l5u = branch(l3, False), branch(l5, False)
    rep.check(is_zero(l3u - Rn ** -3) and is_zero(l5u - Rn ** -3), "R15.1", "undamped", "au3 >= 40: l3 = l5 = R^-3", "undamped branch gives l3 = %s, l5 = %s" % (l3u, l5u), f.loc(), sample=True)
    Tu = branch(T, False)
    tr = sum(Tu[k, k] for k in range(3))
    rep.check(NA.reduce_zero(tr), "R15.1", "traceless", "undamped tensor is traceless", "trace of the undamped tensor is %s" % sp.simplify(tr), f.loc(), sample=True)
    l3d, l5d = branch(l3, True), branch(l5, True)
    okd = is_zero(sp.simplify(l3d - Rn ** -3 * (1 - sp.exp(-u)))) and is_zero(sp.simplify(l5d - Rn ** -3 * (1 - (1 + u) * sp.exp(-u))))
    rep.check(okd, "R15.1", "damping", "l3 = R^-3 (1 - e^-u), l5 = R^-3 (1 - (1+u) e^-u)", "damped factors are l3 = %s, l5 = %s" % (l3d, l5d), f.loc(), sample=True)
    from vsa.cases import decide
    cds = {cs: c for cs, c in getattr(fo, "conds", {}).items()}
    sw_ok = bool(cds)
    for cs, c in cds.items():
        lo = decide(c, {u: sp.Integer(39)}) if isinstance(c, tuple) else None
        hi = decide(c, {u: sp.Integer(40)}) if isinstance(c, tuple) else None
        sw_ok = sw_ok and lo is not None and hi is not None and lo != hi
    rep.check(sw_ok, "R15.1", "damping-switch", "damping applied for au3 < 40", "the damping switch is not a threshold on au3 at 40: %s" % list(cds)[:2], f.loc())

    rep.assumptions += ["the interaction tensor is compared with the Cartesian multipole expansion for traceless quadrupoles in Stone's real spherical components "
                        "(Q20, Q21c, Q21s, Q22c, Q22s); floating-point error of the compiled code and the accuracy of the expansion for finite clusters are not decided",
                        "the field/energy derivative relation is decided only through R15.4 (field and energy are read off the same VSiteA vector)"]
    check_size_selection(rep, F)
    check_induced_field(rep, F)
    check_rotate(rep)
    check_interaction_tensor(rep, F)


def check_size_selection(rep, F):
    import itertools
    from sympy.core.function import AppliedUndef
    from vsa.cases import executes
    n_sites = 0
    seen = set()
    for f in F.funcs:
        if not f.qname.startswith(X + "eeInteractor::") or f.j["template"] == "pattern" or (f.qname, f.j.get("sig")) in seen:
            continue
        if not any(n.get("k") in ("call", "mcall") and (n.get("callee") or "").endswith("eeInteractor::VSiteA") for n in f.walk()):
            continue
        seen.add((f.qname, f.j.get("sig")))
        fo = Fold(f, record_calls=r"eeInteractor::VSiteA$").run()
        conds = getattr(fo, "conds", {})
        calls = [e for e in fo.events if e["kind"] == "call"]
        rets = [e for e in fo.events if e["kind"] == "return" and e.get("value") is not None]
        full = [e for e in calls if len(e["args"]) >= 2 and any(("Q(%s)" % e["args"][-2]) in str(r_["value"]) for r_ in rets)]
        if not full:
            continue                       # only a part of the potential is used (e.g. the field at A): N = 4 is the whole of it
        rep.analysed(f)
        A_, B_ = full[0]["args"][-2], full[0]["args"][-1]
        rA, rB = Fn("getRank")(A_), Fn("getRank")(B_)
        bad = None
        undecided = None
        partial = []

        def zero_orc(lf):
            """isZero of a site's WHOLE multipole vector is a legitimate 'nothing to do' test (named ALLZERO, false in every scenario below);
            isZero of a part of it (head/segment/tail) skips the interaction although other moments are present"""
            if str(getattr(lf, "func", "")) == "isZero" and lf.args:
                inner = lf.args[0]
                if str(getattr(inner, "func", "")) == "Q":
                    return ("ALLZERO", True)
                if str(getattr(inner, "func", "")) in ("head", "tail", "segment") and "Q(" in str(inner):
                    partial.append(str(lf))
                    return ("ALLZERO", True)
            return None
        for ra, rb in itertools.product((0, 1, 2), repeat=2):
            sub = {rA: sp.Integer(ra), rB: sp.Integer(rb)}
            # min/max of the two ranks, as they may appear in the selecting condition
            for e in calls:
                for g_ in list(e["guards"]) + [x for nl in e.get("not", []) for x in nl]:
                    stack = [g_[0]]
                    while stack:
                        c = stack.pop()
                        if isinstance(c, tuple):
                            stack += list(c[1:])
                        elif isinstance(c, sp.Basic):
                            for a_ in c.atoms(AppliedUndef):
                                if str(a_.func) in ("min", "max") and all(x.xreplace(sub).is_number for x in a_.args):
                                    sub[a_] = (sp.Min if str(a_.func) == "min" else sp.Max)(*[x.xreplace(sub) for x in a_.args])
            hit = []
            for e in full:
                x = executes(e, sub, {"ALLZERO": False}, zero_orc, conds)
                if x is None:
                    undecided = "cannot decide which VSiteA<N> is used for rank(%s) = %d, rank(%s) = %d" % (A_, ra, B_, rb)
                    break
                if x:
                    hit.append(e)
            if bad or undecided:
                break
            ns = [int(re.search(r"<(\d+)>", e["node"].get("callee_targs") or "<0>").group(1)) for e in hit]
            need = 9 if ra == 2 else 4
            if len(ns) != 1 or ns[0] < need:
                bad = "for rank(%s) = %d, rank(%s) = %d the energy is contracted with VSiteA<%s>: the %s of %s are dropped, so the pair energy depends on which site is passed first" % (
                    A_, ra, B_, rb, ns, "quadrupole terms" if need == 9 else "terms", A_)
                break
        n_sites += 1
        if undecided and not partial:
            rep.broken("R15.4", "%s: %s" % (f.qname, undecided))
            continue
        if partial and bad is None:
            bad = "the interaction is skipped when %s: that tests only a part of the multipole vector, so a site whose remaining moments are non-zero (e.g. a pure quadrupole) contributes nothing" % partial[0]
        rep.check(bad is None, "R15.4", "size-selection|" + f.qname.split("::")[-1], "VSiteA<9> whenever the contracted site carries a quadrupole", "%s: %s" % (f.qname, bad), f.loc(full[0]["node"]), sample=True)
    rep.floor("R15.4", n_sites, 1, "callers contracting VSiteA with the full multipole vector")


def check_rotate(rep):
    from vsa.alg import mat_atoms
    from vsa.cases import executes
    unit = front.repo("xtp/src/libxtp/staticsite.cc")
    FS = Facts(front.export([unit]))
    rep.units = list(rep.units) + [unit]
    f = FS.one(X + "StaticSite::Rotate")
    rep.analysed(f)
    sph_args = []

    def grab(fold, n, env):
        if (n.get("callee") or "").endswith("CalculateSphericalMultipole") and n.get("args"):
            sph_args.append(fold.ev(n["args"][0], env))
        return NotImplemented
    fo = Fold(f, call=grab).run()
    conds = getattr(fo, "conds", {})
    Rn, refn = [p_["name"] for p_ in f.j["params"][:2]]
    R = mat_atoms(Rn)
    pos, ref = vec_atoms("pos_"), vec_atoms(refn)
    st = [e for e in fo.events if e["kind"] == "store"]
    ps = [e for e in st if e["target"] == "pos_"]
    qt = [fl_["type"] for fl_ in FS.records.get(X + "StaticSite", {}).get("fields", []) if fl_["name"] == "Q_"]
    mq = re.match(r"Eigen::Matrix<double, (\d+), 1", qt[0]) if qt else None
    if not mq:
        raise AnalysisBroken("StaticSite::Q_ is not a fixed-size Eigen vector (type %s)" % qt)
    NQ = int(mq.group(1))

    def part(t):
        """(first, length) of the part of Q_ a store target names: segment(i, n), head(n), tail(n) on the fixed-size vector"""
        t = t.replace(" ", "")
        m_ = re.match(r"^Q_\.(segment|head|tail)\((\d+)(?:,(\d+))?\)$", t)
        if not m_:
            return None
        k_, a_, b_ = m_.group(1), int(m_.group(2)), m_.group(3)
        return (a_, int(b_)) if k_ == "segment" and b_ is not None else (0, a_) if k_ == "head" and b_ is None else (NQ - a_, a_) if k_ == "tail" and b_ is None else None
    dp = [e for e in st if part(e["target"]) == (1, 3)]
    qd = [e for e in st if part(e["target"]) == (4, 5)]
    other_q = [e["target"] for e in st if e["target"].startswith("Q_") and part(e["target"]) not in ((1, 3), (4, 5))]
    if other_q:
        raise AnalysisBroken("StaticSite::Rotate writes parts of Q_ the rule does not interpret: %s" % other_q)
    ok, why = len(ps) >= 1 and len(dp) == 1 and len(qd) == 1, "expected updates of the position, the dipole part and the quadrupole part (found %d/%d/%d)" % (len(ps), len(dp), len(qd))
    if ok:
        # the position the site ends up with (one assignment or several in-place steps), for a reference point that is an independent vector
        want_pos = ref + R * (pos - ref)
        last = ps[-1]
        ok = not any(e_["guards"] for e_ in ps) and isinstance(last["value"], Matrix) and (last["value"] - want_pos).applyfunc(sp.expand) == sp.zeros(3, 1)
        why = "the position becomes %s, not ref + R (pos - ref)" % str(last["value"])[:120]
    if ok:
        # callers rotate a segment about one of its own sites (Rotate(R, site.getPos())): the reference point is a reference parameter that may BE pos_, so it
        # must not be read in a statement after the first one that writes pos_
        pdecl = f.j["params"][1]["decl"]
        by_ref = (f.j["params"][1].get("type") or "").rstrip().endswith("&")
        body = f.j["body"].get("stmts") or []
        first_w = None
        for i_, st_ in enumerate(body):
            wr_ = any((x.get("k") in ("assign",) and any(y.get("k") == "member" and y.get("fname") == "pos_" for y in walk(x["lhs"]))) or
                      (x.get("k") == "opcall" and x.get("op") in ("=", "+=", "-=", "*=") and x.get("args") and any(y.get("k") == "member" and y.get("fname") == "pos_" for y in walk(x["args"][0])))
                      for x in walk(st_))
            if wr_:
                first_w = i_
                break
        if by_ref and first_w is not None:
            late = [x for st_ in body[first_w + 1:] for x in walk(st_) if x.get("k") == "ref" and x.get("decl") == pdecl]
            if late:
                ok, why = False, ("the reference point (a reference parameter) is read again after pos_ has been modified: when a site is rotated about its own position "
                                  "(Rotate(R, site.getPos())) the two are the same object, the site collapses onto the origin and sites rotated afterwards pivot about (0,0,0)")
    if ok:
        rk = S("rank_")
        for r_ in (0, 1, 2):
            xd, xq = executes(dp[0], {rk: sp.Integer(r_)}, None, None, conds), executes(qd[0], {rk: sp.Integer(r_)}, None, None, conds)
            if xd is None or xq is None:
                ok, why = False, "cannot decide which moments are rotated for rank %d" % r_
                break
            if xd != (r_ >= 1) or xq != (r_ >= 2):
                ok, why = False, "for a rank-%d site the dipole is %srotated and the quadrupole is %srotated (the position always is): the moments no longer turn with the site" % (
                    r_, "" if xd else "NOT ", "" if xq else "NOT ")
                break
    if ok:
        d_old = Fn("segment")(S("Q_"), 1, 3)
        v = dp[0]["value"]
        ok = isinstance(v, Matrix) and (v - R * d_old).applyfunc(sp.expand) == sp.zeros(*v.shape)
        why = "the dipole part becomes %s, not R d" % str(v)[:120]
    if ok:
        C = mat_atoms("CalculateCartesianMultipole(this)")
        want_m = R * C * R.T
        ok = len(sph_args) == 1 and isinstance(sph_args[0], Matrix) and sph_args[0].shape == (3, 3) and (sph_args[0] - want_m).applyfunc(sp.expand) == sp.zeros(3, 3) \
            and str(getattr(qd[0]["value"], "func", "")) == "CalculateSphericalMultipole"
        why = "the quadrupole part is not spherical(R C R^T)"
    rep.check(ok, "R15.5", "rotate", "position, dipole (rank > 0) and quadrupole (rank > 1) are all rotated", "StaticSite::Rotate: " + why, f.loc(), sample=True)


def check_interaction_tensor(rep, F):
    """R15.6: the whole interaction vector of VSiteA<N>, folded as dense matrix algebra (vsa/dense.py) for each instantiation and each rank of site B, is linear in
    B's moments and its coefficient matrix equals the Cartesian multipole-expansion tensor derived here by differentiating 1/r"""
    from vsa.dense import Dense, Mat, Obj
    ux, uy, uz = sp.symbols("ux uy uz", real=True)
    R = sp.Symbol("R", positive=True)
    Ax, Ay, Az = sp.symbols("Ax Ay Az", real=True)
    QA = sp.symbols("QA0:9", real=True)
    QB = sp.symbols("QB0:9", real=True)

    def red(e):
        """normal form modulo ux^2 + uy^2 + uz^2 = 1"""
        e = sp.expand(e)
        if not e.has(uz):
            return e
        out = 0
        for (k_,), c_ in sp.Poly(e, uz).terms():
            out += c_ * (1 - ux ** 2 - uy ** 2) ** (k_ // 2) * uz ** (k_ % 2)
        return sp.expand(out)

    def site(pos, Q, rank):
        return Obj(X + "StaticSite", {"pos_": Mat(3, 1, data=[[p_] for p_ in pos]), "Q_": Mat(9, 1, data=[[q_] for q_ in Q]), "rank_": sp.Integer(rank)})
    # ---- reference: E = D_A D_B (1/r) at r = A - B, D_A = q + mu.d + Theta:dd/3, D_B = q - mu.d + Theta:dd/3 (potential of B's moments, energy of A's in it)
    x, y, z = sp.symbols("x y z", real=True)
    r = sp.Symbol("r", positive=True)
    X3 = (x, y, z)
    s3 = sp.sqrt(3)

    def d(e, a_):
        return sp.diff(e, X3[a_]) + sp.diff(e, r) * X3[a_] / r

    def theta(Q):
        q20, q21c, q21s, q22c, q22s = Q[4:9]
        return sp.Matrix([[-q20 / 2 + s3 / 2 * q22c, s3 / 2 * q22s, s3 / 2 * q21c], [s3 / 2 * q22s, -q20 / 2 - s3 / 2 * q22c, s3 / 2 * q21s], [s3 / 2 * q21c, s3 / 2 * q21s, q20]])

    def op(Q, sign, e):
        out = Q[0] * e
        th = theta(Q)
        for a_ in range(3):
            out += sign * Q[1 + a_] * d(e, a_)
            for b_ in range(3):
                out += sp.Rational(1, 3) * th[a_, b_] * d(d(e, a_), b_)
        return out
    E = op(QA, +1, op(QB, -1, 1 / r)).subs({x: -R * ux, y: -R * uy, z: -R * uz, r: R})
    Tref = sp.Matrix(9, 9, lambda i, j: red(sp.diff(E, QA[i], QB[j])))
    flip = {ux: -ux, uy: -uy, uz: -uz}
    ref_sym = all(red(Tref[i, j].subs(flip, simultaneous=True) - Tref[j, i]) == 0 for i in range(9) for j in range(9))
    rep.check(ref_sym and sp.simplify(Tref[0, 0] - 1 / R) == 0, "R15.6", "reference|exchange-and-charge-limit", "T_ij(u) = T_ji(-u) and T_00 = 1/R for the expansion tensor",
              "the reference tensor derived by the rule is not exchange symmetric (rule error)", "rules/C15.py")
    # ---- the code
    vs = {}
    for g in F.funcs:
        if g.qname.endswith("eeInteractor::VSiteA") and g.j["template"] == "instantiation":
            m_ = re.search(r"Matrix<double, (\d+), 1", g.j["sig"])
            if m_:
                vs[int(m_.group(1))] = g
    rep.floor("R15.6", len(vs), 2, "instantiations of VSiteA<N>")
    blocks = {0: range(0, 1), 1: range(1, 4), 2: range(4, 9)}
    for N, g in sorted(vs.items()):
        ranks_a = [a_ for a_ in (0, 1, 2) if blocks[a_].stop <= N]
        for rb in (0, 1, 2):
            try:
                D = Dense(F, reduce=red)
                V = D.val(D.run(g, Obj(X + "eeInteractor", {}), [site((Ax, Ay, Az), QA, max(ranks_a)), site((Ax + R * ux, Ay + R * uy, Az + R * uz), QB, rb)]))
            except AnalysisBroken as ex:
                rep.broken("R15.6", "VSiteA<%d>, rank(B) = %d: %s" % (N, rb, ex))
                continue
            if not isinstance(V, Matrix) or V.shape != (N, 1):
                rep.broken("R15.6", "VSiteA<%d> does not fold to an %d-vector" % (N, N))
                continue
            V = V.applyfunc(red)
            J = V.jacobian(Matrix(QB))
            stray = sorted(str(s_) for s_ in V.free_symbols if s_ in (Ax, Ay, Az) or s_ in QA or str(s_).endswith("?"))
            lin = (V - J * Matrix(QB)).applyfunc(sp.expand) == sp.zeros(N, 1) and not (J.free_symbols & set(QB))
            rep.check(lin and not stray, "R15.6", "linear|N=%d|rankB=%d" % (N, rb), "V = T(posB - posA) Q(B): linear in B's moments, no absolute position, none of A's moments, no uninitialised entry",
                      "VSiteA<%d> with rank(B) = %d: the result %s" % (N, rb, ("depends on " + ", ".join(stray)) if stray else "is not linear in B's moments"), g.loc(), sample=(N == 9 and rb == 2))
            if not lin or stray:
                continue
            if rb == 0:
                rep.check(red(J[0, 0] - 1 / R) == 0, "R15.2", "monopole|VSiteA<%d>" % N, "charge-charge entry is q_B / |posB - posA|",
                          "%s: the charge-charge entry of the interaction vector is %s q_B (required q_B/|posB - posA|)" % (g.qname, J[0, 0]), g.loc(), sample=True)
            for ra in ranks_a:
                for cb in range(0, rb + 1):
                    # how often the (ra x cb) block of the expansion is present: exactly once is required
                    ref_b = Tref.extract(list(blocks[ra]), list(blocks[cb]))
                    got_b = J.extract(list(blocks[ra]), list(blocks[cb]))
                    times = None
                    for k_ in (1, 0, 2, 3, -1):
                        if (got_b - k_ * ref_b).applyfunc(red) == sp.zeros(*ref_b.shape):
                            times = k_
                            break
                    rep.check(times == 1, "R15.3", "VSiteA<%d>|block(%d,%d)|rankB=%d" % (N, ra, cb, rb), "rank-%d(A) x rank-%d(B) block accumulated once" % (ra, cb),
                              "eeInteractor::VSiteA<%d>: with rank(B) = %d the rank-%d(A) x rank-%d(B) interaction block is %s (required once): the pair energy "
                              "depends on which site is passed first and disagrees with the point-charge limit" % (
                                  N, rb, ra, cb, ("accumulated %d times" % times) if times is not None else "not a multiple of the expansion's block"),
                              g.loc(), sample=(N == 9 and (ra, cb, rb) in ((2, 1, 1), (1, 2, 2))))
            for ra in ranks_a:
                for cb in (0, 1, 2):
                    bad = None
                    for i in blocks[ra]:
                        for j in blocks[cb]:
                            got, want = J[i, j], Tref[i, j]
                            if cb <= rb:
                                if red(got - want) != 0:
                                    bad = bad or "entry (%d,%d) is %s, the expansion gives %s" % (i, j, sp.factor(got), sp.factor(want))
                            elif got != 0 and red(got - want) != 0:
                                bad = bad or "entry (%d,%d), a moment above rank(B), enters with %s (neither absent nor the expansion's %s)" % (i, j, sp.factor(got), sp.factor(want))
                    rep.check(bad is None, "R15.6", "tensor|N=%d|rankB=%d|block %dx%d" % (N, rb, ra, cb),
                              "rank-%d moments of A x rank-%d moments of B: %s" % (ra, cb, "equal to the multipole expansion" if cb <= rb else "absent or equal to the expansion"),
                              "VSiteA<%d> with rank(B) = %d, block (rank %d of A) x (rank %d of B): %s; the pair energy then differs from the multipole expansion "
                              "(exchange symmetry E(A,B) = E(B,A), rotation invariance and the point-charge limit are lost)" % (N, rb, ra, cb, bad), g.loc(),
                              sample=(N == 9 and rb == 2 and ra == 2 and cb == 1))
    # ---- the conversion used by Rotate and by the mps reader: spherical -> Cartesian is the map the expansion assumes; Cartesian -> spherical inverts it
    unit = front.repo("xtp/src/libxtp/staticsite.cc")
    FS = Facts(front.export([unit]))
    Qs = sp.symbols("Q0:9", real=True)
    try:
        D = Dense(FS)
        cm, sm = FS.one(X + "StaticSite::CalculateCartesianMultipole"), FS.one(X + "StaticSite::CalculateSphericalMultipole")
        rep.analysed(cm)
        rep.analysed(sm)
        C2 = D.val(D.run(cm, site((0, 0, 0), Qs, 2), []))
        C1 = D.val(D.run(cm, site((0, 0, 0), Qs, 1), []))
        okc = isinstance(C2, Matrix) and (C2 - theta(Qs)).applyfunc(sp.expand) == sp.zeros(3, 3)
        rep.check(okc, "R15.6", "cartesian-quadrupole", "Theta(Q20..Q22s) is the traceless Cartesian quadrupole of the real spherical components",
                  "CalculateCartesianMultipole returns %s for a rank-2 site; the interaction tensor assumes %s" % (C2, theta(Qs)), cm.loc(), sample=True)
        rep.check(isinstance(C1, Matrix) and not (C1.free_symbols & set(Qs[:4])), "R15.6", "cartesian-quadrupole|rank<2", "no charge or dipole component enters the quadrupole tensor",
                  "CalculateCartesianMultipole mixes charge/dipole components into the tensor: %s" % C1, cm.loc())
        Sx = D.val(D.run(sm, None, [theta(Qs)]))
        oks = isinstance(Sx, Matrix) and Sx.shape == (5, 1) and (Sx - Matrix(Qs[4:9])).applyfunc(sp.simplify) == sp.zeros(5, 1)
        rep.check(oks, "R15.6", "spherical-inverts-cartesian", "CalculateSphericalMultipole(Theta(Q)) = Q", "CalculateSphericalMultipole(Theta(Q)) = %s, not Q: a rotation by the identity changes the quadrupole" % (Sx.T if isinstance(Sx, Matrix) else Sx),
                  sm.loc(), sample=True)
    except AnalysisBroken as ex:
        rep.broken("R15.6", "quadrupole conversions: %s" % ex)
