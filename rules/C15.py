"""C15 - classical multipole interactions (thin): the damped dipole-dipole (Thole) tensor and the monopole term (ALG)."""
import re
import sympy as sp
from sympy import Matrix
from vsa import front
from vsa.facts import Facts, unwrap, show, walk, lit_value
from vsa.front import AnalysisBroken
from vsa.alg import Fold, S, F as Fn, is_zero, vec_atoms
from rules.C07 import NormAtoms

LEVEL = "other"
X = "votca::xtp::"


def nows(s):
    return re.sub(r"\s+", "", s)


def run(rep, tier):
    rep.explanation = ("Only the damped dipole-dipole interaction tensor and the monopole factor are decided: FillTholeInteraction is folded "
                       "to T = -3 l5 a a^T + l3 I over the unit vector a (norm as a positive atom R with R^2 = |posB-posA|^2); symmetry, the "
                       "undamped limit (l3 = l5 = R^-3, traceless) and the damping factors are exact identities. The bulk of the property "
                       "(exchange symmetry, rotation invariance, higher-rank blocks, field/energy derivative relation) is not decided.")
    rep.rule("R15.1", "Thole tensor: T = -3 l5 a a^T + l3 I with a the unit vector from A to B; T = T^T; for au3 >= 40 l3 = l5 = R^-3 so tr T = 0; "
                      "damped: l3 = R^-3 (1 - e^-u), l5 = R^-3 (1 - (1+u) e^-u), u = expdamping R^3 s1 s2")
    rep.rule("R15.2", "monopole: fac1 = 1/|posB - posA| and the charge-charge entry is fac1 * charge")
    units = [front.repo("xtp/src/libxtp/eeinteractor.cc")]
    F = Facts(front.export(units))
    rep.units = units
    rep.assumptions.append("xtp is not built in this sandbox: the unit is parsed with synthesised flags")
    f = F.one(X + "eeInteractor::FillTholeInteraction")
    rep.analysed(f)
    NA = NormAtoms()
    pA, pB = vec_atoms("posA"), vec_atoms("posB")

    def call(fold, n, env):
        cal = n.get("callee") or ""
        short = cal.split("::")[-1]
        if n.get("k") == "mcall" and short == "getPos":
            return pB if "site2" in show(n["obj"]) else pA
        if n.get("k") == "mcall" and short == "norm":
            v = fold.ev(n["obj"], env)
            if isinstance(v, Matrix):
                return NA.norm(v)
        return NotImplemented
    fo = Fold(f, call=call).run()
    if len(fo.returns) != 1 or not isinstance(fo.returns[0][0], Matrix):
        raise AnalysisBroken("FillTholeInteraction does not fold to one 3x3 return")
    R0 = fo.returns[0][0]
    env = fo.exit_env()
    byname = {d["name"]: env.get(k) for k, d in f.decls.items() if k in env}
    l3, l5, a = byname.get("lambda3"), byname.get("lambda5"), byname.get("a")
    diag = [e for e in fo.events if e["kind"] == "store" and nows(e["target"]) == "result.diagonal().array()"]
    ok_shape = l3 is not None and l5 is not None and isinstance(a, Matrix) and len(diag) == 1
    dval = None
    if ok_shape:
        node = unwrap(diag[0]["node"])
        rhs = unwrap(node["args"][1])
        ok_shape = node.get("op") == "+=" and rhs.get("k") == "ref" and rhs.get("decl") in env
        dval = env.get(rhs.get("decl")) if ok_shape else None
    if not ok_shape or dval is None:
        raise AnalysisBroken("FillTholeInteraction: 'result = <matrix>; result.diagonal().array() += <scalar>' shape not recognised")
    T = R0 + dval * sp.eye(3)
    want = -3 * l5 * a * a.T + l3 * sp.eye(3)
    from sympy.core.function import AppliedUndef
    frozen = {}

    def freeze(e):
        def rep_(x):
            return frozen.setdefault(x, sp.Symbol("Z%d" % len(frozen), real=True))
        return e.replace(lambda x: isinstance(x, AppliedUndef) or isinstance(x, sp.exp), rep_)
    rz = NA.reduce_zero
    NA.reduce_zero = lambda e: rz(freeze(e))
    rep.check(all(NA.reduce_zero(T[i, j] - want[i, j]) for i in range(3) for j in range(3)), "R15.1", "form", "T = -3 l5 a a^T + l3 I",
              "FillTholeInteraction does not return -3*lambda5*a*a^T + lambda3*I", f.loc(), sample=True)
    rep.check(all(NA.reduce_zero(T[i, j] - T[j, i]) for i in range(3) for j in range(i)), "R15.1", "symmetric", "T = T^T", "the Thole tensor is not symmetric", f.loc(), sample=True)
    Rn = NA.atoms[0][0] if NA.atoms else None
    unit = sum(x * x for x in a)
    rep.check(Rn is not None and NA.reduce_zero(unit - 1), "R15.1", "unit-vector", "a is the unit vector (posB - posA)/R", "a is not normalised: a.a = %s" % sp.simplify(unit), f.loc())
    d0 = (pB - pA)
    rep.check(all(NA.reduce_zero(a[k] - d0[k] / Rn) for k in range(3)) if Rn is not None else False, "R15.1", "direction", "a points from A to B", "a is not (posB - posA)/R", f.loc())

    def branch(e, take_then):
        def pick(x):
            return x.args[1] if take_then else x.args[2]
        return e.replace(lambda x: str(getattr(x, "func", "")) == "ite" and len(x.args) == 3, pick)
    u = S("expdamping_") * Rn ** 3 * Fn("getSqrtInvEigenDamp")(S("site1")) * Fn("getSqrtInvEigenDamp")(S("site2"))
    l3u, l5u = branch(l3, False), branch(l5, False)
    rep.check(is_zero(l3u - Rn ** -3) and is_zero(l5u - Rn ** -3), "R15.1", "undamped", "au3 >= 40: l3 = l5 = R^-3", "undamped branch gives l3 = %s, l5 = %s" % (l3u, l5u), f.loc(), sample=True)
    Tu = branch(T, False)
    tr = sum(Tu[k, k] for k in range(3))
    rep.check(NA.reduce_zero(tr), "R15.1", "traceless", "undamped tensor is traceless", "trace of the undamped tensor is %s" % sp.simplify(tr), f.loc(), sample=True)
    l3d, l5d = branch(l3, True), branch(l5, True)
    okd = is_zero(sp.simplify(l3d - Rn ** -3 * (1 - sp.exp(-u)))) and is_zero(sp.simplify(l5d - Rn ** -3 * (1 - (1 + u) * sp.exp(-u))))
    rep.check(okd, "R15.1", "damping", "l3 = R^-3 (1 - e^-u), l5 = R^-3 (1 - (1+u) e^-u)", "damped factors are l3 = %s, l5 = %s" % (l3d, l5d), f.loc(), sample=True)
    conds = [n for n in f.walk() if n.get("k") == "if"]
    rep.check(len(conds) == 1 and nows(show(conds[0]["cond"])) == "(au3<40)", "R15.1", "damping-switch", "damping applied for au3 < 40", "damping switch is %s" % [show(c["cond"]) for c in conds], f.loc())

    # ---------------------------------------------------------------- R15.2
    vs = [g for g in F.funcs if g.qname.endswith("eeInteractor::VSiteA") and g.j["template"] != "instantiation"] or [g for g in F.funcs if g.qname.endswith("eeInteractor::VSiteA")]
    if not vs:
        rep.broken("R15.2", "eeInteractor::VSiteA not found")
    else:
        g = vs[0]
        rep.analysed(g)
        defs = {d["name"]: nows(show(d["init"])) for d in g.decls.values() if d.get("init") is not None}
        ok = defs.get("fac1") in ("(1/R)", "(1./R)", "(1.0/R)") and defs.get("R") == "a.norm()" and "(posB-posA)" in (defs.get("a") or "")
        v0 = [nows(show(n)) for n in g.walk() if n.get("k") in ("assign", "opcall") and n.get("op") in ("=", "+=") and nows(show(n.get("lhs") or n["args"][0])) == "V(0)"]
        ok = ok and any("fac1*siteB.getCharge()" in t or "siteB.getCharge()*fac1" in t for t in v0)
        rep.check(ok, "R15.2", "monopole", "V(0) gets fac1 * q_B with fac1 = 1/|posB - posA|", "monopole term: defs %s, V(0) assignments %s" % ({k: defs.get(k) for k in ("a", "R", "fac1")}, v0[:2]), g.loc(), sample=True)
    rep.assumptions += ["exchange symmetry, translation/rotation invariance, the rank-1/2 tensor blocks, the Coulomb limit of charge clusters and the "
                        "field/energy derivative relation are NOT decided (they need path-sensitive evaluation of VSiteA<N> over if-constexpr/rank "
                        "branches or execution)"]
