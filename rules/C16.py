"""C16 - structure comparison and graph decomposition: the structural necessary conditions of label independence and of the
traversal results (canonical order before concatenation, node content, distance labelling, traversal discipline, single-network test).

Only clauses whose truth is in the shape of the code are decided here; that the traversals are correct for every graph is not."""
import re
import itertools
import sympy as sp
from vsa import front
from vsa.facts import Facts, unwrap, show, walk, lit_value
from vsa.front import AnalysisBroken
from vsa.alg import Fold, S, F as Fn, guard_strs
from vsa.cfg import CFG
from vsa.cases import decide, executes, decision_table, resolve_ite

LEVEL = "other"
T = "votca::tools::"


def nows_(x):
    return re.sub(r"\s+", "", x or "")

C = "votca::csg::"


def nows(s):
    return re.sub(r"\s+", "", s)


def run(rep, tier):
    rep.explanation = ("Label independence of the structure id rests on every string id being assembled in a canonical order: each function "
                       "that concatenates an id is checked to sort its source (by content only) on every path before the concatenation loop, "
                       "and to iterate the sorted sequence, not the hash container.  The node content built from a bead is checked to carry "
                       "name and mass.  The distance visitor, the generic visitor step, the breadth-first queue and the single-network test "
                       "are folded and their effects decided by truth tables over the conditions they test.  Not decided: that the traversals "
                       "visit every reachable vertex for every graph, component extraction and reduce/expand round trips (they need the "
                       "dynamics of the queues over arbitrary graphs).")
    rep.rule("R16.1", "canonical order: Graph::calcId_ and the three GraphNode key-string helpers sort (comparators use the content strings / keys "
                      "only, never the vertex number) before they concatenate, on every path, and concatenate in the sorted order")
    rep.rule("R16.2", "node content of a bead: the graph node is built from the bead's Name and Mass (both reach setStr / setDouble of the returned node)")
    rep.rule("R16.3", "distance labelling: the start vertex gets Dist 0; a vertex explored for the first time gets Dist(other end of the discovering "
                      "edge) + 1; an already explored vertex keeps its label; the node is written back and marked explored on every path")
    rep.rule("R16.4", "traversal step: exec explores exactly the one unexplored end of the edge (none: nothing happens, two: error); the breadth-first "
                      "queue hands out the oldest edge of the oldest level and only queues edges that lead to unexplored vertices")
    rep.rule("R16.6", "findStructureId: every candidate start vertex is explored on its own fresh copy of the input graph (declared inside the candidate loop, "
                      "initialised from the parameter, which is not written before the loop ends), with its own visitor; the id kept is the largest")
    rep.rule("R16.8", "reduceGraph keeps the vertex set: the reduced graph takes its nodes from the whole input graph (copyNodes(graph) on the returned object before every "
                      "return, or graph.getNodes() handed to the constructor) - never from the vertices met in the chains, which leaves out isolated vertices")
    rep.rule("R16.7", "breadth-first order (necessary for shortest-path distance labels): getEdge_ takes the oldest edge of the front level queue and drops that queue "
                      "when it runs empty; addEdges_ never appends to the level queue being drained (the front one): edges of unexplored neighbours go to a fresh queue "
                      "pushed to the back (fewer than two level queues) or to the second queue (two level queues)")
    rep.rule("R16.5", "singleNetwork: true exactly when the exploration reached every vertex and no node is isolated; the exploration runs first")
    units = [front.repo("tools/src/libtools/" + u) for u in ("graph.cc", "graphnode.cc", "graphalgorithm.cc", "graphvisitor.cc", "graph_bf_visitor.cc",
                                                             "graphdistvisitor.cc")] + [front.repo("csg/src/libcsg/beadstructure.cc")]
    F = Facts(front.export(units))
    rep.units = units

    # ---------------------------------------------------------------- R16.1
    n_sorted = 0
    for q, what in ((T + "Graph::calcId_", "node id strings"), (T + "getIntStringId_", "integer keys"), (T + "getDoubleStringId_", "double keys"),
                    (T + "getStrStringId_", "string keys")):
        f = F.one(q)
        rep.analysed(f)
        ok, why = sorted_before_concat(f, F)
        n_sorted += 1
        rep.check(ok, "R16.1", "sorted|" + q.split("::")[-1], "%s sorted before they are concatenated" % what,
                  "%s: %s - the id depends on the iteration order of the hash container, so structures that differ only in bead numbering or insertion order get different ids" % (
                      q.split("tools::")[-1], why), f.loc(), sample=True)
    rep.floor("R16.1", n_sorted, 4, "id-assembling functions")
    cmpf = F.one(T + "cmpVertNodePair")
    rep.analysed(cmpf)
    fo = Fold(cmpf).run()
    v = fo.returns[0][0] if len(fo.returns) == 1 else None
    ps = [p_["name"] for p_ in cmpf.j["params"]]
    ok = isinstance(v, tuple) and len(v) == 3 and v[0] in ("<", ">") and ".first" not in str(v) and all("getStringId(%s.second)" % p_ in str(v) for p_ in ps)
    rep.check(ok, "R16.1", "comparator|cmpVertNodePair", "nodes are ordered by their content string only", "cmpVertNodePair orders by %s: the vertex number must not take part" % (v,), cmpf.loc(), sample=True)
    init = F.one(T + "GraphNode::initStringId_")
    rep.analysed(init)
    fi = Fold(init, record_calls=r"::append$|::clear$").run()
    parts = [str(e["args"][0]) for e in fi.events if e["kind"] == "call" and e["callee"].endswith("::append") and not e["guards"]]
    okp = len(parts) == 3 and [re.match(r"^get(\w+)StringId_\((\w+)_vals_\)$", p_).group(1) if re.match(r"^get(\w+)StringId_\((\w+)_vals_\)$", p_) else "?" for p_ in parts] == ["Int", "Double", "Str"] \
        and all(re.match(r"^get(Int|Double|Str)StringId_\((int|double|str)_vals_\)$", p_) for p_ in parts)
    rep.check(okp, "R16.1", "node-id-parts", "node id = int part + double part + string part, each from its own attribute map, unconditionally",
              "GraphNode::initStringId_ appends %s" % parts, init.loc())

    # ---------------------------------------------------------------- R16.2
    b2g = F.one(C + "BeadStructure::BeadInfoToGraphNode_")
    rep.analysed(b2g)
    fb = Fold(b2g, record_calls=r"GraphNode::set(Double|Str|Int)$").run()
    pn = b2g.j["params"][0]["name"]
    stores = {}
    for e in fb.events:
        if e["kind"] == "store" and e.get("idx") and not e["guards"]:
            key = re.search(r'"(\w+)"', str(e["idx"][0]))
            base = e["target"].split("[")[0]
            if key:
                stores.setdefault(base, {})[key.group(1)] = str(e["value"])
    calls = {e["callee"].split("::")[-1]: e for e in fb.events if e["kind"] == "call" and not e["guards"]}
    rv = fb.returns[0][0] if len(fb.returns) == 1 else None
    ok = "setDouble" in calls and "setStr" in calls and rv is not None and calls["setDouble"]["obj"] == rv and calls["setStr"]["obj"] == rv
    if ok:
        dn = nows(show(calls["setDouble"]["node"]["args"][0]))
        sn = nows(show(calls["setStr"]["node"]["args"][0]))
        # maps filled by subscript stores, or initialised from a literal list of {key, value} pairs: read off the folded argument
        for nm_, cal_ in ((dn, "setDouble"), (sn, "setStr")):
            for k_, v_ in re.findall(r"\('pair', \"(\w+)\", ([\w\.]+)\)", str(calls[cal_]["args"][0])):
                stores.setdefault(nm_, {})[k_] = v_
        ok = stores.get(dn, {}).get("Mass") == "%s.mass" % pn and stores.get(sn, {}).get("Name") == "%s.name" % pn
    rep.check(ok, "R16.2", "node-content", "node carries Mass (double) and Name (string) of the bead",
              "BeadStructure::BeadInfoToGraphNode_ builds the node from %s (setters %s): structures whose bead names or masses differ are not told apart" % (stores, sorted(calls)), b2g.loc(), sample=True)

    # R16.2 (second half): every bead gets the node built from ITS OWN content - one node per bead, not one per name/type
    ig = F.one(C + "BeadStructure::InitializeGraph_") if F.find(C + "BeadStructure::InitializeGraph_") else None
    if ig is None:
        rep.broken("R16.2", "BeadStructure::InitializeGraph_ not found")
    else:
        rep.analysed(ig)
        fig = Fold(ig, inline=False).run()
        nst = [e for e in fig.events if e["kind"] == "store" and re.match(r"^graphnodes_\[", e["target"])]
        lps = [l for l in getattr(fig, "loops", []) if str(l.get("range")) == "beads_" and l.get("var") is not None]
        okn, whyn = len(nst) == 1 and len(lps) == 1, "expected one store into graphnodes_ inside the loop over beads_ (stores %d, loops %d)" % (len(nst), len(lps))
        if okn:
            var = str(lps[0]["var"]).split("@")[0]
            e = nst[0]
            want_v = "BeadInfoToGraphNode_(this, %s.second)" % var
            in_loop_ = any(isinstance(g_[0], tuple) and g_[0] and g_[0][0] == "loop" and g_[0][1] == lps[0]["lid"] for g_ in e["guards"])
            inner_guards = [g_ for g_ in e["guards"] if not (isinstance(g_[0], tuple) and g_[0] and g_[0][0] == "loop") and "graphUpToDate" not in str(g_[0])]
            key_v = nows(str(e["idx"][0])) if e.get("idx") else nows(e["target"])[len("graphnodes_["):-1]
            okn = in_loop_ and not inner_guards and key_v == "%s.first" % var and nows(str(e["value"])) == nows(want_v)
            whyn = "vertex %s receives %s%s; required: the node built from that bead's own name and mass, for every bead" % (
                e["target"], str(e["value"])[:100], (" under %s" % guard_strs(fig, inner_guards)) if inner_guards else "")
        rep.check(okn, "R16.2", "node-per-bead", "graphnodes_[id] = BeadInfoToGraphNode_(that bead) for every bead", "BeadStructure::InitializeGraph_: " + whyn +
                  " (beads that share a name but differ in mass would share one node: structures with different mass multisets compare equal, and the result depends on the iteration order of beads_)",
                  ig.loc(), sample=True)

    # ---------------------------------------------------------------- R16.3
    dv = F.one(T + "GraphDistVisitor::exploreNode")
    rep.analysed(dv)
    fd = Fold(dv, record_calls=r"GraphVisitor::exploreNode$|Graph::setNode$|GraphNode::initStringId_$").run()
    pg, gg, ed = [p_["name"] for p_ in dv.j["params"][:3]]
    dst = [e for e in fd.events if e["kind"] == "store" and '"Dist"' in e["target"]]
    base = [e for e in fd.events if e["kind"] == "call" and e["callee"].endswith("GraphVisitor::exploreNode")]
    setn = [e for e in fd.events if e["kind"] == "call" and e["callee"].endswith("Graph::setNode")]

    def cls3(lf):
        s_ = nows(str(lf))
        if isinstance(lf, tuple) and len(lf) == 3 and lf[0] in ("==", "!="):
            a_, b_ = nows(str(lf[1])), nows(str(lf[2]))
            if {a_, b_} == {"%s.first" % pg, "startingVertex_"}:
                return ("START", lf[0] == "==")
            if "count(explored_,%s.first)" % pg in (a_, b_) and "0" in (a_, b_):
                return ("NEW", lf[0] == "==")
            if "count(explored_,%s.first)" % pg in (a_, b_) and "1" in (a_, b_):
                return ("NEW", lf[0] != "==")
        return None
    ok, why = len(dst) >= 1 and len(base) == 1, "stores to Dist: %d, calls of the base visitor: %d" % (len(dst), len(base))
    if ok:
        conds = getattr(fd, "conds", {})
        for st_, nw_ in itertools.product((True, False), repeat=2):
            A = {"START": st_, "NEW": nw_}
            val = None
            # the explored-set count of the vertex is a number: 0 on the first visit of this traversal, 1 afterwards (decides `<= 1`, `< 1`, `> 0` forms)
            cnt_sub = {Fn("count")(S("explored_"), S(pg + ".first")): sp.Integer(0 if nw_ else 1)}
            for e in dst:
                x = executes(e, cnt_sub, A, cls3, conds)
                if x is None:
                    gtxt = " ".join(guard_strs(fd, e["guards"]))
                    if '"Dist"' in gtxt and "int_vals_" in gtxt:
                        ok, why = False, ("whether the label is written depends on the label the node already carries (%s), not on whether this traversal has explored the vertex: "
                                          "labels left by an earlier labelling (another start vertex, an earlier findStructureId) are kept as if they were distances" % gtxt[:160])
                    else:
                        raise AnalysisBroken("GraphDistVisitor::exploreNode: cannot decide whether the label is written for start=%s, first visit=%s (guards %s)" % (st_, nw_, gtxt[:200]))
                elif x:
                    val = e["value"]
                    if hasattr(val, "args"):
                        val = resolve_ite(val, lambda cs: decide(conds[cs], None, A, cls3, conds) if cs in conds else None)
            if not ok:
                break
            wb = [s_ for s_ in setn if executes(s_, None, A, cls3, conds) is True]
            if val is not None and not wb:
                ok, why = False, "for start vertex=%s, first visit=%s the relabelled node is not written back with setNode" % (st_, nw_)
                break
            if st_:
                good = val == 0
            elif nw_:
                prev = [a for a in (sp.preorder_traversal(val) if val is not None and hasattr(val, "args") else []) if str(getattr(a, "func", "")) == "getOtherEndPoint"]
                good = val is not None and len(prev) >= 1 and nows(str(prev[0])) == "getOtherEndPoint(%s,%s.first)" % (ed, pg) and '"Dist"' in str(val) and \
                    "getNode(%s," % gg in nows(str(val)) and sp.simplify(val - (val - 1)) == 1 and str(sp.expand(val - 1)).count("at(") == 1 and (val - 1).is_Function
            else:
                good = val is None
            if not good:
                ok, why = False, "for start vertex=%s, first visit=%s the label becomes %s" % (st_, nw_, val)
                break
        if ok:
            ok = executes(base[0], None, {}, cls3, conds) is True and not base[0]["guards"] and not base[0]["not"]
            why = "the vertex is not marked explored on every path"
    rep.check(ok, "R16.3", "distance-label", "Dist = 0 at the start, Dist(previous end) + 1 on first visit, unchanged otherwise; always marked explored",
              "GraphDistVisitor::exploreNode: " + why, dv.loc(), sample=True)

    # ---------------------------------------------------------------- R16.4
    ex = F.one(T + "GraphVisitor::exec")
    rep.analysed(ex)
    fe = Fold(ex, record_calls=r"::exploreNode$").run()
    gp, ep = [p_["name"] for p_ in ex.j["params"][:2]]
    calls = [e for e in fe.events if e["kind"] == "call"]
    throws = [e for e in fe.events if e["kind"] == "throw"]
    n_un = Fn("size")(Fn("getUnexploredVertex")(S("this"), S(ep)))
    ok, why = len(calls) == 1 and len(throws) == 1, "explore calls %d, throws %d" % (len(calls), len(throws))
    if ok:
        conds = getattr(fe, "conds", {})
        for k_ in (0, 1, 2):
            sub = {n_un: sp.Integer(k_)}
            # truthiness tests  !size / size / empty()  are decided by the number itself
            un_ = Fn("getUnexploredVertex")(S("this"), S(ep))
            cnt_orc = lambda lf: ("some", True) if lf == n_un else ("some", False) if lf == Fn("empty")(un_) else None
            xc = executes(calls[0], sub, {"some": k_ > 0}, cnt_orc, conds)
            xt = executes(throws[0], sub, {"some": k_ > 0}, cnt_orc, conds)
            if (xc, xt) != ((k_ == 1), (k_ == 2)):
                ok, why = False, "with %d unexplored end(s) the vertex is %sexplored and the error is %sraised" % (k_, "" if xc else "not ", "" if xt else "not ")
                break
        arg = str(calls[0]["args"][0]) if calls[0]["args"] else ""
        # the vector has exactly one element when the call happens: front(), back() and at(0) are that element
        arg = re.sub(r"(front|back)\(getUnexploredVertex\(this, %s\)\)" % re.escape(ep), "at(getUnexploredVertex(this, %s), 0)" % ep, arg)
        if ok and not ("at(getUnexploredVertex(this, %s), 0)" % ep in arg and "getNode(%s, at(getUnexploredVertex(this, %s), 0))" % (gp, ep) in arg and str(calls[0]["args"][-1]) == ep):
            ok, why = False, "the explored vertex/node/edge is %s" % [str(a)[:80] for a in calls[0]["args"]]
    rep.check(ok, "R16.4", "exec", "exec explores the single unexplored end of the edge with that edge", "GraphVisitor::exec: " + why, ex.loc(), sample=True)
    # ---------------------------------------------------------------- R16.5
    sn = F.one(T + "singleNetwork")
    rep.analysed(sn)
    fs = Fold(sn, record_calls=r"exploreGraph$").run()
    gn, vn = [p_["name"] for p_ in sn.j["params"][:2]]
    evs = [e for e in fs.events if e["kind"] == "call"]
    rets = [e for e in fs.events if e["kind"] == "return"]
    ok, why = len(evs) == 1 and len(rets) >= 1 and not evs[0]["guards"], "exploreGraph calls %d, returns %d" % (len(evs), len(rets))
    if ok:
        ok = all(fs.events.index(evs[0]) < fs.events.index(r_) for r_ in rets) and [str(a) for a in evs[0]["args"]] == [gn, vn]
        why = "the exploration does not run (on this graph and visitor) before the result is formed"
    if ok:
        cfs = getattr(fs, "conds", {})

        def cls5(lf):
            if isinstance(lf, tuple) and len(lf) == 3 and lf[0] in ("==", "!="):
                a_, b_ = nows(str(lf[1])), nows(str(lf[2]))
                if {a_, b_} == {"size(getExploredVertices(%s))" % vn, "size(getVertices(%s))" % gn}:
                    return ("ALL", lf[0] == "==")
                if "size(getIsolatedNodes(%s))" % gn in (a_, b_) and "0" in (a_, b_):
                    return ("NOISO", lf[0] == "==")
            if nows(str(lf)) == "empty(getIsolatedNodes(%s))" % gn:
                return ("NOISO", True)
            return None
        for al, ni in itertools.product((True, False), repeat=2):
            A = {"ALL": al, "NOISO": ni}
            taken = [r_ for r_ in rets if executes(r_, None, A, cls5, cfs)]
            und = [r_ for r_ in rets if executes(r_, None, A, cls5, cfs) is None]
            r_ = None
            if len(taken) == 1 and not und:
                v_ = taken[0]["value"]
                r_ = bool(v_) if v_ in (True, False, sp.true, sp.false) else decide(v_, None, A, cls5, cfs)
            if r_ is None or r_ != (al and ni):
                ok, why = False, "for all-vertices-reached=%s, no-isolated-node=%s the result is %s" % (al, ni, r_)
                break
    rep.check(ok, "R16.5", "single-network", "explored all vertices AND no isolated node", "singleNetwork: " + why, sn.loc(), sample=True)
    # ---------------------------------------------------------------- R16.6
    fsi = [f for f in F.funcs if f.qname == T + "findStructureId" and f.j["template"] == "instantiation"]
    rep.floor("R16.6", len(fsi), 1, "instantiations of findStructureId")
    for f in fsi[:1]:
        rep.analysed(f)
        g = f.j["params"][0]
        ex = [n for n in f.walk() if n.get("k") == "call" and n.get("callee") == T + "exploreGraph"]
        ok, why = len(ex) == 1, "expected one exploreGraph call, found %d" % len(ex)
        if ok:
            loops = [a for a in f.ancestors(ex[0]) if a.get("k") in ("rangefor", "for", "while")]
            a0, a1 = unwrap(ex[0]["args"][0]), unwrap(ex[0]["args"][1])
            ok = bool(loops) and a0.get("k") == "ref" and a0.get("dk") == "local" and a1.get("k") == "ref" and a1.get("dk") == "local"
            why = "exploreGraph is not called on local copies inside the loop over the candidate start vertices"
            if ok:
                body_decls = {d["decl"]: d for n in walk(loops[0]["body"]) if n.get("k") == "decl" for d in n["decls"]}
                dg, dv = body_decls.get(a0.get("decl")), body_decls.get(a1.get("decl"))
                ok = dg is not None and dv is not None
                why = "the graph (or the visitor) handed to exploreGraph is declared outside the candidate loop: labels written while exploring from one start vertex leak into the next exploration, so the id depends on the iteration order of the hash containers"
                if ok:
                    i0 = unwrap(dg.get("init") or {})
                    while i0.get("k") in ("construct", "cast") and (i0.get("args") or i0.get("sub") is not None):
                        i0 = unwrap(i0["args"][0] if i0.get("k") == "construct" else i0["sub"])
                    ok = i0.get("k") == "ref" and i0.get("decl") == g["decl"]
                    why = "the per-candidate copy is initialised from %s, not from the input graph" % show(dg.get("init"))
                if ok:
                    # the parameter is not written before the loop ends (only afterwards, to return the chosen labelling)
                    cfg_ = CFG(f)
                    wr = [n for n in f.walk() if n.get("k") in ("opcall", "assign") and n.get("op") == "=" and unwrap(n.get("lhs") or n["args"][0]).get("decl") == g["decl"]]
                    ok = all(not any(x.get("id") == n["id"] for x in walk(loops[0])) and n["id"] in cfg_.where and ex[0]["id"] in cfg_.where and
                             cfg_.where[n["id"]][0] not in cfg_.reaches([cfg_.entry], avoid={cfg_.where[n["id"]][0]}) - set() or True for n in wr) and \
                        all(not any(x.get("id") == n["id"] for x in walk(loops[0])) for n in wr) and all(not cfg_.dominates(n["id"], ex[0]["id"]) for n in wr if n["id"] in cfg_.where)
                    why = "the input graph is overwritten before all candidates have been explored"
        rep.check(ok, "R16.6", "fresh-copy-per-candidate", "each candidate is explored on its own copy of the input graph with its own visitor", "findStructureId: " + why, f.loc(), sample=True)
        # the kept id is the maximum over the candidates
        fo6 = Fold(f).run()
        rv = fo6.returns[0][0] if len(fo6.returns) == 1 else None
        lp = [l for l in getattr(fo6, "loops", []) if l.get("step")]
        okm = False
        for l in lp:
            for k_, stp in l["step"].items():
                if not (f.decls.get(k_) or {}).get("type", "").startswith("std::basic_string"):
                    continue
                sym = l["syms"][k_]
                if isinstance(stp, tuple) and stp and stp[0] == "ite":
                    c, tv, fv = stp[1], stp[2], stp[3]
                elif str(getattr(stp, "func", "")) == "ite" and len(stp.args) == 3:
                    c, tv, fv = getattr(fo6, "conds", {}).get(str(stp.args[0])), stp.args[1], stp.args[2]
                else:
                    continue
                if not (isinstance(c, tuple) and len(c) == 3 and c[0] in ("<", ">") and c[2] == 0 and "getId(" in str(tv) and fv == sym):
                    continue
                cmp_ = str(c[1])
                # chosen.compare(new) < 0  or  new.compare(chosen) > 0 : the new id is larger
                if (c[0] == "<" and cmp_.startswith("compare(%s," % sym)) or (c[0] == ">" and cmp_.startswith("compare(") and cmp_.rstrip(")").endswith(str(sym))):
                    okm = True
        rep.check(okm, "R16.6", "largest-id-wins", "the lexicographically largest candidate id is kept", "findStructureId does not keep the largest id over the candidates", f.loc())
    check_bfs(rep, F)
    # ---------------------------------------------------------------- R16.8
    rgs = [f_ for f_ in F.find(T + "reduceGraph") if f_.j.get("body") and "cfg" in f_.j]
    rep.floor("R16.8", len(rgs), 1, "definition of reduceGraph")
    for rg in rgs[:1]:
        rep.analysed(rg)
        g8 = CFG(rg)
        gp = rg.j["params"][0]["name"]
        copies = [n for n in rg.walk() if n.get("k") == "mcall" and (n.get("callee") or "").endswith("::copyNodes") and n.get("args") and show(unwrap(n["args"][0])) == gp and n["id"] in g8.where]
        rets = [n for n in rg.walk() if n.get("k") == "return" and n["id"] in g8.where]
        ok8, why8 = False, ""
        if copies and rets:
            obj = show(unwrap(copies[0]["obj"]))
            ok8 = all(g8.dominates(copies[0]["id"], r_["id"]) and obj in show(r_.get("value") or {}) for r_ in rets)
            why8 = "copyNodes(%s) does not precede every return of the object it fills" % gp
        if not ok8:
            cons = [n for n in rg.walk() if n.get("k") == "construct" and (n.get("callee") or "").endswith("ReducedGraph::ReducedGraph") and len(n.get("args") or []) == 2]
            for c_ in cons:
                a1 = nows_(show(unwrap(c_["args"][1])))
                if a1 == gp + ".getNodes()":
                    ok8 = True
                else:
                    d_ = [d for d in rg.decls.values() if d.get("name") == a1]
                    filled_in_loop = [n for n in rg.walk() if n.get("k") in ("rangefor", "for") and a1 and any(a1 + "[" in show(x) for x in walk(n.get("body") or {}))]
                    why8 = ("the reduced graph is built from the node map '%s', which is filled %s: a vertex without an edge is in no chain, so reduceGraph(g).expandGraph() loses "
                            "every isolated vertex and its attributes" % (a1, "vertex by vertex inside the loop over the chains" if filled_in_loop else "from something other than the input graph's nodes"))
            if not cons and not why8:
                why8 = "neither copyNodes(%s) nor a construction from %s.getNodes() found" % (gp, gp)
        rep.check(ok8, "R16.8", "reduce-keeps-nodes", "nodes of the reduced graph = nodes of the input graph", "reduceGraph: " + why8, rg.loc(), sample=True)
    rep.assumptions += ["std::sort orders by the comparator given; std::unordered_map iteration order is arbitrary",
                        "completeness of the traversal (every reachable vertex is visited), connected-component extraction, reduce/expand round trips and the "
                        "choice among equal-degree start vertices are NOT decided: they depend on queue dynamics over arbitrary graphs"]


def sorted_before_concat(f, F):
    """(ok, why): one loop appends to the result string; it iterates a local sequence L; std::sort(L.begin(), L.end()[, cmp]) dominates it"""
    g = CFG(f)
    sorts = [n for n in f.walk() if n.get("k") == "call" and n.get("callee") == "std::sort"]
    loops = [n for n in f.walk() if n.get("k") == "rangefor" and any(x.get("k") == "mcall" and (x.get("callee") or "").endswith("::append") for x in walk(n["body"]))]
    if len(loops) != 1:
        return False, "%d loops concatenate the id (expected one)" % len(loops)
    lp = loops[0]
    rng = unwrap(lp["range"])
    while rng.get("k") == "cast":
        rng = unwrap(rng["sub"])
    if rng.get("k") != "ref" or rng.get("dk") != "local":
        return False, "the id is concatenated while iterating %s, not a sorted local sequence" % show(lp["range"])
    good = []
    for s_ in sorts:
        a0, a1 = unwrap(s_["args"][0]), unwrap(s_["args"][1])
        def owner(a, which):
            while a.get("k") in ("cast", "construct") and (a.get("sub") is not None or a.get("args")):
                a = unwrap(a["sub"] if a.get("sub") is not None else a["args"][0])
            if a.get("k") == "mcall" and (a.get("callee") or "").split("::")[-1] == which:
                o = unwrap(a["obj"])
                return o.get("decl") if o.get("k") == "ref" else None
            return None
        if owner(a0, "begin") == rng.get("decl") and owner(a1, "end") == rng.get("decl"):
            good.append(s_)
    if not good:
        return False, "the sequence %s is not sorted" % rng.get("name")
    s0 = good[0]
    first = [x for x in walk(lp["body"]) if x.get("k") == "mcall" and (x.get("callee") or "").endswith("::append")][0]
    if s0["id"] not in g.where or first["id"] not in g.where or not g.dominates(s0["id"], first["id"]):
        return False, "the sort does not come before the concatenation on every path"
    # nothing reorders / refills the sequence between the sort and the loop
    for n in f.walk():
        if n.get("k") == "mcall" and unwrap(n.get("obj") or {}).get("decl") == rng.get("decl") and (n.get("callee") or "").split("::")[-1] in ("push_back", "emplace_back", "insert", "erase", "assign", "clear") \
                and n["id"] in g.where and g.dominates(s0["id"], n["id"]):
            return False, "the sequence is modified after it was sorted"
    return True, ""


def check_bfs(rep, F):
    BF = T + "Graph_BF_Visitor::"
    ae, ge = F.one(BF + "addEdges_"), F.one(BF + "getEdge_")
    rep.analysed(ae); rep.analysed(ge)
    RC = r"::push$|::push_back$|::emplace$|::emplace_back$|::push_front$|::pop$|::pop_front$|::pop_back$"
    fa = Fold(ae, record_calls=RC, opaque_types=r"std::queue<|std::vector<").run()
    ca = getattr(fa, "conds", {})
    QS, Qsz = S("edge_que_"), Fn("size")(S("edge_que_"))

    def orc(lf):
        if lf == Fn("empty")(QS) or str(lf) == "empty(edge_que_)":
            return ("EMPTY", True)
        if isinstance(lf, tuple) and len(lf) == 3 and lf[0] in ("==", "!=") and str(getattr(lf[1], "func", "")) == "count" and "explored_" in str(lf[1]) and lf[2] in (0, 1):
            return ("NEW", (lf[0] == "==") == (lf[2] == 0))
        if isinstance(lf, sp.Basic) and str(getattr(lf, "func", "")) == "empty" and lf.args and str(lf.args[0]) != "edge_que_":
            return ("LOCAL_EMPTY", True)
        return None
    ok, why = True, ""
    alias = {nm: str(v_) for nm, v_ in getattr(fa, "opaque_inits", {}).items() if isinstance(v_, sp.Symbol)}

    def cq(v):
        t = str(v)
        seen = set()
        while t in alias and alias[t] != t and t not in seen:
            seen.add(t)
            t = alias[t]
        return t
    allp = [e for e in fa.events if e["kind"] == "call" and e["callee"].split("::")[-1] in ("push", "emplace") and e["obj"] is not None and str(e["obj"]) != "edge_que_" and e["args"]]
    moved = lambda e: str(getattr(e["args"][0], "func", "")) == "front" and e["args"][0].args
    pushes = [e for e in allp if not moved(e)]                 # an edge of the new vertex is queued
    moves = [e for e in allp if moved(e)]                      # the content of one queue is appended to another
    appends = [e for e in fa.events if e["kind"] == "call" and str(e["obj"]) == "edge_que_"]
    rep.floor("R16.7", len(pushes), 1, "edge pushes in addEdges_")
    vp = ae.j["params"][1]["name"]
    for e in pushes:
        # queued only if the other end of that very edge is unexplored
        x_new = [executes(e, {Qsz: sp.Integer(k)}, {"EMPTY": k == 0, "NEW": False, "LOCAL_EMPTY": False}, orc, ca) for k in (0, 1, 2)]
        if any(x is not False for x in x_new) or not any(("getOtherEndPoint(%s, %s)" % (e["args"][0], vp)) in str(g_[0]) for g_ in e["guards"]):
            ok, why = False, "the edge pushed at line %s is queued although its other end is already explored (or the test looks at another edge)" % e["node"].get("line")
    for k in (0, 1, 2):
        if not ok:
            break
        A = {"EMPTY": k == 0, "NEW": True, "LOCAL_EMPTY": False}
        sub = {Qsz: sp.Integer(k)}
        dec = lambda e: executes(e, sub, A, orc, ca)
        if any(dec(e) is None for e in allp + appends):
            ok, why = False, "cannot decide which queue operations run with %d level queue(s)" % k
            break
        recv = {cq(e["obj"]) for e in pushes if dec(e)}
        drained = set()
        for e in moves:
            if dec(e) and cq(e["args"][0].args[0]) in recv:
                recv.add(cq(e["obj"]))
                drained.add(cq(e["args"][0].args[0]))
        final = recv - drained
        if len(final) != 1:
            ok, why = False, "with %d level queue(s) the edges of the new vertex end up in %s" % (k, sorted(final))
            break
        tgt = next(iter(final))
        app = [e for e in appends if dec(e)]
        if k < 2:
            good = "edge_que_" not in tgt and len(app) == 1 and app[0]["callee"].split("::")[-1] in ("push_back", "emplace_back") and [cq(a) for a in app[0]["args"]] == [tgt]
            if not good:
                ok, why = False, "with %d level queue(s) the new edges go to %s and edge_que_ is extended by %s: they must start a queue of their own behind the one being drained" % (
                    k, tgt, [(e["callee"].split("::")[-1], [str(a) for a in e["args"]]) for e in app])
                break
        else:
            if tgt not in ("at(edge_que_, 1)", "back(edge_que_)") or app:
                ok, why = False, "with two level queues the new edges are pushed to %s%s: edges of a deeper level overtake pending shallower ones (not the second queue), so distance labels exceed the shortest path" % (
                    tgt, " and edge_que_ is extended" if app else "")
                break
    rep.check(ok, "R16.7", "bfs|enqueue", "new edges never join the level queue being drained", "Graph_BF_Visitor::addEdges_: " + why, ae.loc(), sample=True)
    fg = Fold(ge, record_calls=RC).run()
    cg = getattr(fg, "conds", {})
    front0 = Fn("at")(QS, 0)
    rets = [e for e in fg.events if e["kind"] == "return"]
    pops = [e for e in fg.events if e["kind"] == "call" and e["callee"].split("::")[-1] == "pop"]
    drops = [e for e in fg.events if e["kind"] == "call" and str(e["obj"]) == "edge_que_"]
    isfront = lambda v: str(v) in ("at(edge_que_, 0)", "front(edge_que_)")

    def orc2(lf):
        if isinstance(lf, tuple) and len(lf) == 3 and lf[0] in ("==", "!=") and str(getattr(lf[1], "func", "")) == "size" and isfront(lf[1].args[0]) and lf[2] == 0:
            return ("DRAINED", lf[0] == "==")
        if isinstance(lf, sp.Basic) and str(getattr(lf, "func", "")) == "empty" and isfront(lf.args[0]):
            return ("DRAINED", True)
        return None
    okg = len(rets) == 1 and str(getattr(rets[0]["value"], "func", "")) == "front" and isfront(rets[0]["value"].args[0]) and len(pops) == 1 and isfront(pops[0]["obj"]) and not pops[0]["guards"]
    whyg = "it returns %s and pops %s" % ([str(r_["value"]) for r_ in rets], [str(p_["obj"]) for p_ in pops])
    if okg:
        for dr in (True, False):
            d_ = [e for e in drops if executes(e, None, {"DRAINED": dr}, orc2, cg)]
            if (len(d_) == 1 and d_[0]["callee"].split("::")[-1] == "pop_front") != dr or (not dr and d_):
                okg, whyg = False, "with the front level queue %s it modifies edge_que_ by %s" % ("drained" if dr else "not drained", [e["callee"].split("::")[-1] for e in d_])
    rep.check(okg, "R16.7", "bfs|dequeue", "oldest edge of the front level queue; the queue is dropped when drained", "Graph_BF_Visitor::getEdge_: " + whyg, ge.loc(), sample=True)
