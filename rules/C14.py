"""C14 - KMC event selection and Marcus rates: closed-form algebra (ALG), decision tables (EXH), tree orientation (SIB)."""
import re
import sympy as sp
from vsa import front
from vsa.facts import Facts, unwrap, show, walk, lit_value
from vsa.front import AnalysisBroken
from vsa.alg import Fold, S, F as Fn, is_zero, guard_strs, vec_atoms
from vsa.cfg import CFG
from vsa.cases import decide, executes, resolve_ite, ites, decision_table

LEVEL = "proof"
X = "votca::xtp::"


def nows(s):
    return re.sub(r"\s+", "", s)


def run(rep, tier):
    rep.explanation = ("ALG: Marcusrate is folded to a symbolic expression in (Jeff2, dG, lambda, T); detailed balance "
                       "k12/k21 = exp(dG/kT) for equal reorganisation energies, linearity in Jeff2 and positivity are decided as exact "
                       "identities; Rate() is folded to check how dG, its sign for the backward rate, the charge table and the field term "
                       "are assembled; the escape rate is the plain sum of event rates; the waiting time is -ln(u)/k. SIB/PATH: the "
                       "selection tree assigns both leaves wherever it marks a last-level node and uses one orientation (p > threshold "
                       "-> left) in construction, descent and leaf choice.")
    rep.rule("R14.1", "GNode::InitEscapeRate: escape_rate_ = sum over events of getRate(), starting from 0")
    rep.rule("R14.2", "Marcus rate: k(J2,dG,l) = 2pi/hbar J2/sqrt(4 pi l T) exp(-(dG-l)^2/(4 l T)); hence k(J2,dG,l)/k(J2,-dG,l) = exp(dG/T), k linear in J2, k > 0 for J2,l,T > 0")
    rep.rule("R14.3", "Rate(): dG = getdE12 + q R.F with q = -1 (electron), +1 (hole), 0 otherwise; rate12 = k(J2, dG, reorg12), rate21 = k(J2, -dG, reorg21); "
                      "near-zero reorganisation energies throw; the reverse event uses -R (GNode::AddEventfromQmPair)")
    rep.rule("R14.4", "KMCCalculator::Promotetime: dt = -ln(u)/k with u = 1 - uniform[0,1)")
    rep.rule("R14.5", "selection tree: every node flagged isOnLastLevel has both leaves assigned; inner nodes combine the two smallest and store h1 left / h2 right; "
                      "probability shifting, descent and leaf choice all use 'p > threshold -> left'")
    rep.rule("R14.7", "GNode::MakeHuffTree rebuilds the selection tree from the current event list: setEvents(&events_) and makeTree() run on every call, or - if a "
                      "cached-tree flag guards them - every member function that changes events_ resets that flag (InitEscapeRate and the tree must see the same events)")
    rep.rule("R14.6", "QMPair persistence keeps the per-carrier tables: the record field WriteData fills from M.getValue(X) is the field ReadData passes to "
                      "M.setValue(., X), for M in {lambda0_, Jeff2_} and all four carrier kinds (the rate engine reads Jeff2 and lambda0 by carrier kind)")
    units = [front.repo("xtp/src/libxtp/" + u) for u in ("rate_engine.cc", "gnode.cc", "kmccalculator.cc", "qmpair.cc")]
    F = Facts(front.export(units))
    rep.units = units
    rep.trusted.append("sympy exact algebra")
    rep.assumptions.append("xtp is not built in this sandbox: units are parsed with synthesised flags")

    # ---------------------------------------------------------------- R14.1
    ie = F.one(X + "GNode::InitEscapeRate")
    rep.analysed(ie)
    fo = Fold(ie).run()
    st = [e for e in fo.events if e["kind"] == "store" and e["target"] == "escape_rate_"]
    final = fo.exit_env().get(("field", "escape_rate_"))
    ok = final is not None and str(getattr(final, "func", "")).startswith("SUM_")
    if ok:
        lp = [l for l in getattr(fo, "loops", []) if "SUM_" + str(l["lid"]) == str(final.func)]
        ok = len(lp) == 1 and lp[0]["var"] is not None and str(lp[0]["range"]) == "events_" and final.args[0] == Fn("getRate")(lp[0]["var"])
    rep.check(ok, "R14.1", "escape-rate", "escape_rate_ = 0 + SUM getRate(event) over events_", "GNode::InitEscapeRate computes %s" % final, ie.loc(), sample=True)

    # ---------------------------------------------------------------- R14.2
    mr = F.one(X + "Rate_Engine::Marcusrate")
    rep.analysed(mr)
    J, dG, lam = [sp.Symbol(n, positive=(n != "dG"), real=True) for n in ("J2", "dG", "lam")]
    Tm = sp.Symbol("T", positive=True)
    hbar = sp.Symbol("hbar", positive=True)
    pi = sp.pi

    def atom(fold, n, env):
        if n.get("k") == "ref" and n.get("dk") == "global":
            nm = n["qname"].split("::")[-1]
            if nm == "Pi":
                return pi
            if nm in ("hbar", "ev2hrt"):
                return hbar if nm == "hbar" else sp.Integer(1)
        if n.get("k") == "member" and n.get("fname") == "temperature_":
            return Tm
        return NotImplemented
    ps = mr.j["params"]
    fo = Fold(mr, atom=atom).run({ps[0]["decl"]: J, ps[1]["decl"]: dG, ps[2]["decl"]: lam})
    if len(fo.returns) != 1:
        raise AnalysisBroken("Marcusrate: expected one return")
    k = fo.returns[0][0]
    want = 2 * pi / hbar * J / sp.sqrt(4 * pi * lam * Tm) * sp.exp(-(dG - lam) ** 2 / (4 * lam * Tm))
    rep.check(sp.simplify(k / want) == 1, "R14.2", "marcus-formula", "k = 2pi/hbar J2/sqrt(4 pi l T) exp(-(dG-l)^2/(4 l T))", "Rate_Engine::Marcusrate returns %s" % k, mr.loc(), sample=True)
    ratio = sp.simplify(sp.log(sp.simplify(k / k.subs(dG, -dG))))
    rep.check(sp.simplify(sp.expand(ratio) - dG / Tm) == 0, "R14.2", "detailed-balance", "ln(k(dG)/k(-dG)) = dG/T for equal reorganisation energies",
              "Marcus forward/backward rates violate detailed balance: ln(k12/k21) = %s, required dG/T" % sp.expand(ratio), mr.loc(), sample=True)
    rep.check(sp.simplify(sp.diff(k, J) * J - k) == 0, "R14.2", "linear-in-J2", "rate proportional to Jeff2", "Marcusrate is not linear in the squared coupling", mr.loc(), sample=True)
    rep.check(k.is_positive is True, "R14.2", "positive", "rate > 0 for J2, lambda, T > 0", "Marcusrate is not manifestly positive: %s" % k, mr.loc(), sample=True)

    # ---------------------------------------------------------------- R14.3
    rt = F.one(X + "Rate_Engine::Rate")
    rep.analysed(rt)
    calls = []

    def hook(fold, n, env):
        if n.get("k") == "mcall" and n.get("callee") == X + "Rate_Engine::Marcusrate":
            calls.append([fold.ev(a, env) for a in n["args"]])
            return S("k%d" % len(calls))
        return NotImplemented
    fo = Fold(rt, call=hook).run()
    ok, why = False, "expected two Marcusrate calls, found %d" % len(calls)
    if len(calls) == 2:
        (j1, g1, l1), (j2, g2, l2) = calls
        chg = Fn("ite")(S("(carriertype == votca::xtp::QMStateType::Electron)"), -1, Fn("ite")(S("(carriertype == votca::xtp::QMStateType::Hole)"), 1, 0))
        s_g1 = str(g1)
        ok = is_zero(g1 + g2) and j1 == j2 and "getJeff2(pair, carriertype)" in str(j1)
        why = "rate21 is evaluated with dG' = %s (must be -dG) / couplings %s, %s" % (g2, j1, j2)
        if ok:
            ok = "getdE12(pair, carriertype)" in s_g1 and "R(pair)" in s_g1 and "field_" in s_g1
            site = S("getdE12(pair, carriertype)")
            fld = sp.expand(g1 - Fn("getdE12")(S("pair"), S("carriertype")))
            ok = ok and not fld.has(Fn("getdE12")(S("pair"), S("carriertype")))
            why = "dG = %s is not getdE12 + q R.F" % s_g1[:200]
        if ok:
            l1s, l2s = str(l1), str(l2)
            ok = "getReorg12" in l1s and "getReorg21" in l2s and is_zero((l1 - Fn("getReorg12")(S("pair"), S("carriertype"))) + (l2 - Fn("getReorg21")(S("pair"), S("carriertype"))))
            why = "reorganisation energies are %s and %s" % (l1s, l2s)
    rep.check(ok, "R14.3", "rate-assembly", "rate12 = k(J2, dG, reorg12), rate21 = k(J2, -dG, reorg21), dG = dE12 + q R.F", "Rate_Engine::Rate: " + why, rt.loc(), sample=True)
    # charge table and field term: the driving force of rate12 for each carrier kind
    from vsa.cases import decide, resolve_ite, ites
    conds_ = getattr(fo, "conds", {})

    def carrier_oracle(leaf):
        if isinstance(leaf, tuple) and len(leaf) == 3 and leaf[0] in ("==", "!="):
            a_, b_ = str(leaf[1]), str(leaf[2])
            for nm in ("Electron", "Hole"):
                if a_.endswith("::" + nm) or b_.endswith("::" + nm):
                    return ("is" + nm, leaf[0] == "==")
        return None
    okq, okf, got = len(calls) == 2, len(calls) == 2, {}
    if len(calls) == 2:
        g1 = calls[0][1]
        pn, cn = rt.j["params"][0]["name"], rt.j["params"][1]["name"]
        de = Fn("getdE12")(S(pn), S(cn))
        RF = sum(a_ * b_ for a_, b_ in zip(vec_atoms("R(%s)" % pn), vec_atoms("field_")))
        for kind, q_ in (("Electron", -1), ("Hole", 1), ("other", 0)):
            atoms = {"isElectron": kind == "Electron", "isHole": kind == "Hole"}
            v = resolve_ite(g1, lambda cs: decide(conds_.get(cs), None, atoms, carrier_oracle, conds_) if cs in conds_ else None) if hasattr(g1, "args") else g1
            if isinstance(v, (tuple, sp.Matrix)) or ites(v):
                raise AnalysisBroken("Rate_Engine::Rate: the driving force depends on a condition the rule does not know: %s" % str(v)[:160])
            fld = sp.expand(v - de)
            got[kind] = fld
            if fld.has(de.func):
                okf = False
            elif sp.expand(fld - q_ * RF) != 0:
                # q wrong (a multiple of R.F) or the field term is not R.F
                ratio = sp.cancel(fld / RF) if fld != 0 else sp.Integer(0)
                if getattr(ratio, "is_number", False):
                    okq = False
                else:
                    okf = False
    rep.check(bool(okq), "R14.3", "charge-table", "electron -1, hole +1, otherwise 0", "the field contribution to dG per carrier kind is %s x (R . F); required -1 (electron), +1 (hole), 0 (otherwise)" % (
        {k_: str(sp.cancel(v_ / RF)) if v_ != 0 else "0" for k_, v_ in got.items()} if len(calls) == 2 else "?"), rt.loc(), sample=True)
    rep.check(bool(okf), "R14.3", "field-term", "dG_Field = q * R . F", "the field term of the driving force is %s, not q (R . F)" % {k_: str(v_)[:80] for k_, v_ in got.items()}, rt.loc())
    thr = [" & ".join(guard_strs(fo, t)) for t in fo.throws]
    ok = any("Abs(" in t and "getReorg12" in t and "getReorg21" in t and "1/1000000000000" in t and "||" in t for t in thr)
    rep.check(ok, "R14.3", "zero-reorg-throws", "|reorg| < 1e-12 -> throw", "near-zero reorganisation energies do not throw (guards: %s)" % [t[:120] for t in thr], rt.loc())
    ae = F.one(X + "GNode::AddEventfromQmPair")
    rep.analysed(ae)
    fae = Fold(ae, record_calls=r"GNode::AddEvent$").run()
    evs = [e for e in fae.events if e["kind"] == "call"]
    pn = ae.j["params"][0]["name"]
    id1, id2 = "getId(Seg1(%s))" % pn, "getId(Seg2(%s))" % pn
    Rv = vec_atoms("R(%s)" % pn)
    conds_e = getattr(fae, "conds", {})

    def from_oracle(lf):
        if isinstance(lf, tuple) and len(lf) == 3 and lf[0] in ("==", "!=") and "id_" in (str(lf[1]), str(lf[2])):
            other = str(lf[2]) if str(lf[1]) == "id_" else str(lf[1])
            if other == id1:
                return ("FROM1", lf[0] == "==")
            if other == id2:
                return ("FROM1", lf[0] != "==")
        return None
    from vsa.cases import executes as _executes
    ok, why = bool(evs), "no AddEvent call found"
    for from1 in (True, False):
        if not ok:
            break
        # by cases of 'the hop starts on segment 1': exactly one AddEvent runs (one unconditional call, or one call per branch)
        live = []
        for e_ in evs:
            x_ = _executes(e_, None, {"FROM1": from1}, from_oracle, conds_e)
            if x_ is None:
                ok, why = False, "cannot decide whether AddEvent at line %s runs for a hop starting at segment %d" % (e_["node"].get("line"), 1 if from1 else 2)
                break
            if x_:
                live.append(e_)
        if not ok:
            break
        if len(live) != 1 or len(live[0]["args"]) != 3:
            ok, why = False, "for a hop starting at segment %d AddEvent runs %d times (exactly one event per pair and direction)" % (1 if from1 else 2, len(live))
            break
        dest, dr, rt = live[0]["args"]
        pick = lambda cs: decide(conds_e[cs], None, {"FROM1": from1}, from_oracle, conds_e) if cs in conds_e else None
        d_ = resolve_ite(dest[1], pick) if isinstance(dest, tuple) and len(dest) == 2 and dest[0] == "&" and hasattr(dest[1], "args") else dest
        v_ = sp.Matrix([resolve_ite(x, pick) if hasattr(x, "args") else x for x in dr]) if isinstance(dr, sp.Matrix) else dr
        want_d = id2 if from1 else id1
        want_v = Rv if from1 else -Rv
        if not (want_d in str(d_) and (id1 if from1 else id2) not in str(d_)) or not (isinstance(v_, sp.Matrix) and v_ == want_v) or str(rt) != ae.j["params"][2]["name"]:
            ok, why = False, "for a hop starting at segment %d the event goes to %s with displacement %s" % (1 if from1 else 2, str(d_)[:80], str(list(v_))[:80] if isinstance(v_, sp.Matrix) else v_)
            break
    rep.check(ok, "R14.3", "reverse-event", "events from seg1 go to seg2 with +R, from seg2 to seg1 with -R", "AddEventfromQmPair: " + why, ae.loc(), sample=True)

    # ---------------------------------------------------------------- R14.4
    pt = F.one(X + "KMCCalculator::Promotetime")
    rep.analysed(pt)
    fo = Fold(pt).run()
    v = fo.returns[0][0] if fo.returns else None
    u = Fn("rand_uniform")(S("RandomVariable_"))
    kk = S(pt.j["params"][0]["name"])
    ok = v is not None and sp.simplify(v + sp.log(1 - u) / kk) == 0
    rep.check(ok, "R14.4", "waiting-time", "dt = -ln(1-U)/k", "KMCCalculator::Promotetime returns %s (required -ln(u)/k: exponentially distributed with the escape rate)" % v, pt.loc(), sample=True)

    # ---------------------------------------------------------------- R14.5
    mk = [f for f in F.funcs if f.qname.endswith("huffmanTree<votca::xtp::GLink>::makeTree") or (f.qname.endswith("::makeTree") and "huffmanTree" in f.qname and f.j["template"] != "pattern")]
    fh = [f for f in F.funcs if f.qname.endswith("::findHoppingDestination") and "huffmanTree" in f.qname and f.j["template"] != "pattern"]
    ad = [f for f in F.funcs if f.qname.endswith("::addProbabilityFromRightSubtreeToLeftSubtree") and f.j["template"] != "pattern"]
    mv = [f for f in F.funcs if f.qname.endswith("::moveProbabilitiesFromRightSubtreesOneLevelUp") and f.j["template"] != "pattern"]
    if not (mk and fh and ad and mv):
        # fall back to the template patterns
        pick = lambda suffix: [f for f in F.funcs if f.qname.endswith(suffix) and "huffmanTree" in f.qname]
        mk, fh, ad, mv = pick("::makeTree"), pick("::findHoppingDestination"), pick("::addProbabilityFromRightSubtreeToLeftSubtree"), pick("::moveProbabilitiesFromRightSubtreesOneLevelUp")
    if not (mk and fh and ad and mv):
        raise AnalysisBroken("huffmanTree functions not found")
    mk, fh, ad, mv = mk[0], fh[0], ad[0], mv[0]
    for f in (mk, fh, ad, mv):
        rep.analysed(f)
    MUT = r"priority_queue<.*>::(push|pop)$"
    fmk = Fold(mk, mutators=MUT, inline=lambda q_, g_: bool(g_.j.get("internal")) or "huffmanTree<" in q_).run()
    sv = fmk.exit_env().get(("field", "sum_of_values"))
    stores = [e for e in fmk.events if e["kind"] == "store"]

    def gkey(e):
        return (tuple(guard_strs(fmk, e["guards"])), tuple(sorted(str(x) for x in e.get("not", []))))

    def sibling(e, suffix_from, suffix_to):
        base = e["target"][:-len(suffix_from)]
        return [x for x in stores if x["target"] == base + suffix_to and gkey(x) == gkey(e)]

    def fname(v):
        return str(getattr(v, "func", ""))

    def two_smallest(x, y):
        """x, y are the tops of one queue before and after one pop (either order)"""
        for u, v in ((x, y), (y, x)):
            if fname(u) == "top" and fname(v) == "top" and fname(v.args[0]) == "mut_pop" and v.args[0].args[0] == u.args[0]:
                return True
        return False
    flags = [e for e in stores if e["target"].endswith(".isOnLastLevel") and e["value"] in (True, sp.true, 1)]
    rep.floor("R14.5", len(flags), 2, "last-level flag sites")
    leaf_ok, leaf_why, nleaf = True, "", 0
    for i, fl in enumerate(flags):
        L, R_ = sibling(fl, ".isOnLastLevel", ".leftLeaf"), sibling(fl, ".isOnLastLevel", ".rightLeaf")
        ok = len(L) == 1 and len(R_) == 1 and fname(L[0]["value"]) == "top" and fname(R_[0]["value"]) == "top"
        rep.check(ok, "R14.5", "leaves-assigned#%d" % i, "last-level node gets both leaves", "makeTree marks a node as last level without assigning both leaves from the event queue (a lookup can return a null/stale event)",
                  mk.loc(fl["node"]), sample=True)
        if not ok:
            continue
        lv, rv = L[0]["value"], R_[0]["value"]
        P = sibling(fl, ".isOnLastLevel", ".probability")
        if len(P) != 1 or sv is None or isinstance(P[0]["value"], (tuple, sp.Matrix)):
            leaf_ok, leaf_why = False, "no probability stored for the last-level node flagged at line %s" % fl["node"].get("line")
            continue
        nleaf += 1
        gv = lambda x: Fn("getValue")(x)
        if lv == rv:
            want = gv(lv) / sv
        elif two_smallest(lv, rv):
            want = (gv(lv) + gv(rv)) / sv
        else:
            leaf_ok, leaf_why = False, "the two leaves %s / %s are not the two smallest unassigned events" % (str(lv)[:60], str(rv)[:60])
            continue
        if sp.simplify(P[0]["value"] - want) != 0:
            leaf_ok, leaf_why = False, "the last-level probability is %s, expected %s" % (str(P[0]["value"])[:160], str(want)[:160])
    rep.check(leaf_ok and nleaf >= 2, "R14.5", "leaf-probabilities", "last-level probability = (left + right)/sum (single leaf: value/sum)", "makeTree: " + (leaf_why or "fewer than two last-level sites"), mk.loc(), sample=True)
    lcs = [e for e in stores if e["target"].endswith(".leftChild")]
    ok, why = len(lcs) == 1, "expected one store of .leftChild, found %d" % len(lcs)
    if ok:
        RC, P = sibling(lcs[0], ".leftChild", ".rightChild"), sibling(lcs[0], ".leftChild", ".probability")
        ok, why = len(RC) == 1 and len(P) == 1, "right child or probability of the inner node not assigned with the left child"
        if ok:
            lc, rc = lcs[0]["value"], RC[0]["value"]
            ok, why = two_smallest(lc, rc), "children are %s / %s, not the two nodes of smallest probability" % (str(lc)[:60], str(rc)[:60])
        if ok:
            from sympy.core.function import AppliedUndef
            pr = {a_.args[0]: a_ for a_ in P[0]["value"].atoms(AppliedUndef) if fname(a_) == ".probability"} if hasattr(P[0]["value"], "atoms") else {}
            ok = lc in pr and rc in pr and sp.simplify(P[0]["value"] - pr[lc] - pr[rc]) == 0
            why = "inner probability is %s, not the sum of the two children" % str(P[0]["value"])[:160]
        if ok:
            lp = [l for l in fmk.loops if any(fname(v_) == "mut_push" and fname(v_.args[0]) == "mut_pop" and fname(v_.args[0].args[0]) == "mut_pop" and v_.args[0].args[0].args[0] == lc.args[0]
                                               for v_ in (l.get("step") or {}).values() if hasattr(v_, "args"))]
            ok, why = len(lp) == 1, "the combine loop does not replace the two popped nodes by their parent"
    rep.check(ok, "R14.5", "inner-nodes", "inner node = the two smallest nodes, probability = their sum, parent pushed back", "makeTree: " + why, mk.loc(), sample=True)
    oks, whys = False, "sum_of_values is not assigned"
    if sv is not None and not isinstance(sv, (tuple, sp.Matrix)):
        sums = [a for a in sp.preorder_traversal(sv) if str(getattr(a, "func", "")).startswith("SUM_")]
        stale = S("sum_of_values") in sv.free_symbols
        oks = not stale and len(sums) == 1 and sp.simplify(sv - sums[0]) == 0 and str(getattr(sums[0].args[0], "func", "")) == "getValue"
        whys = ("the normaliser is %s: it still contains its value from before the call, so building the tree a second time (kmclifetime rebuilds it after adding decay events) "
                "normalises with the sum of both builds and the selection intervals no longer have length rate/escape_rate" % sv) if stale else "the normaliser is %s, not the sum of all event values" % sv
    rep.check(oks, "R14.5", "normaliser", "sum_of_values = sum of the event values of this build (independent of any earlier build)", "makeTree: " + whys, mk.loc(), sample=True)
    # orientation: descent, leaf choice, probability shifting
    ffh = Fold(fh).run()
    cfh = getattr(ffh, "conds", {})
    pp = fh.j["params"][0]["name"]

    def above(lf):
        if isinstance(lf, tuple) and len(lf) == 3 and lf[0] in (">", "<=", "<", ">="):
            l_, r_ = str(lf[1]), str(lf[2])
            if l_ == pp and r_.endswith("->probability"):
                return {">": ("ABOVE", True), "<=": ("ABOVE", False)}.get(lf[0])
            if r_ == pp and l_.endswith("->probability"):
                return {"<": ("ABOVE", True), ">=": ("ABOVE", False)}.get(lf[0])
        if str(lf) == "treeIsMade":
            return ("MADE", True)
        return None
    okl, whyl = True, ""
    desc = [l for l in getattr(ffh, "loops", []) if l.get("step")]
    if len(desc) != 1:
        okl, whyl = False, "expected one descent loop, found %d" % len(desc)
    for up in (True, False):
        if not okl:
            break
        A = {"ABOVE": up, "MADE": True}
        pick = lambda cs: decide(cfh[cs], None, A, above, cfh) if cs in cfh else None
        steps = [resolve_ite(v_, pick) if hasattr(v_, "args") else v_ for v_ in desc[0]["step"].values()]
        steps = [str(v_) for v_ in steps if "Child" in str(v_)]
        rv_ = []
        for e in ffh.events:
            if e["kind"] == "return" and e.get("value") is not None:
                x = executes(e, None, A, above, cfh)
                if x is None:
                    okl, whyl = False, "cannot decide which leaf is returned for p %s threshold" % (">" if up else "<=")
                elif x:
                    v_ = e["value"]
                    rv_.append(str(resolve_ite(v_, pick) if hasattr(v_, "args") else v_))
        want_c, want_l = ("->leftChild", "->leftLeaf") if up else ("->rightChild", "->rightLeaf")
        if okl and not (len(steps) == 1 and steps[0].endswith(want_c) and len(rv_) == 1 and rv_[0].endswith(want_l)):
            okl, whyl = False, "for p %s threshold the descent goes to %s and the leaf returned is %s" % (">" if up else "<=", steps, rv_)
    rep.check(okl, "R14.5", "orientation|lookup", "descent and leaf choice: p > threshold -> left", "findHoppingDestination: " + whyl, fh.loc(), sample=True)
    fad = Fold(ad, record_calls=r"::addProbabilityFromRightSubtreeToLeftSubtree$").run()
    np_, addp = ad.j["params"][0]["name"], S(ad.j["params"][1]["name"])
    rec = [e for e in fad.events if e["kind"] == "call"]
    args = {str(e["args"][-2]): e["args"][-1] for e in rec if len(e["args"]) >= 2}
    oka = set(args) == {np_ + "->leftChild", np_ + "->rightChild"} and sp.simplify(args[np_ + "->rightChild"] - addp) == 0 and \
        sp.simplify(args[np_ + "->leftChild"] - addp - S(np_ + "->rightChild->probability")) == 0
    own = [e for e in fad.events if e["kind"] == "store" and e["target"] == np_ + "->probability" and not e["guards"] and not e.get("not")]
    oka = oka and len(own) == 1 and sp.simplify(own[0]["value"] - addp - S(np_ + "->probability")) == 0
    if oka:
        # P(right) must be read before the right child is shifted itself (the recursion rewrites rightChild->probability through the pointer)
        li_ = [i_ for i_, e in enumerate(fad.events) if e["kind"] == "call" and len(e["args"]) >= 2 and str(e["args"][-2]) == np_ + "->leftChild"]
        ri_ = [i_ for i_, e in enumerate(fad.events) if e["kind"] == "call" and len(e["args"]) >= 2 and str(e["args"][-2]) == np_ + "->rightChild"]
        oka = len(li_) == 1 and len(ri_) == 1 and li_[0] < ri_[0]
    rep.check(oka, "R14.5", "orientation|shift", "every node gets add; left subtree receives add + P(right), right subtree add", "addProbabilityFromRightSubtreeToLeftSubtree recursion is %s" % {k_: str(v_) for k_, v_ in args.items()}, ad.loc(), sample=True)
    fmv = Fold(mv, record_calls=r"::moveProbabilitiesFromRightSubtreesOneLevelUp$").run()
    cmv = getattr(fmv, "conds", {})
    nm_ = mv.j["params"][0]["name"]

    def lastlevel(lf):
        return ("LAST", True) if str(lf) == nm_ + "->isOnLastLevel" else None
    okm, whym = True, ""
    for last in (True, False):
        A = {"LAST": last}
        st_ = [e for e in fmv.events if e["kind"] == "store" and e["target"] == nm_ + "->probability" and executes(e, None, A, lastlevel, cmv)]
        rc_ = sorted(str(e["args"][-1]) for e in fmv.events if e["kind"] == "call" and executes(e, None, A, lastlevel, cmv))
        if last:
            good = len(st_) == 1 and sp.simplify(st_[0]["value"] - (S(nm_ + "->probability") - Fn("getValue")(S(nm_ + "->leftLeaf")) / S("sum_of_values"))) == 0 and not rc_
        else:
            good = len(st_) == 1 and st_[0]["value"] == S(nm_ + "->rightChild->probability") and rc_ == [nm_ + "->leftChild", nm_ + "->rightChild"]
            if good:
                # the right child's value is copied BEFORE the recursion rewrites it (the callee changes *rightChild through the pointer)
                rr = [e for e in fmv.events if e["kind"] == "call" and str(e["args"][-1]) == nm_ + "->rightChild" and executes(e, None, A, lastlevel, cmv)]
                if not (len(rr) == 1 and fmv.events.index(st_[0]) < fmv.events.index(rr[0])):
                    okm, whym = False, ("an inner node copies the right child's value after the recursion into the right child has already replaced it by that child's own "
                                        "threshold: the node's threshold is no longer a + P(right subtree)")
                    break
        if not good:
            okm, whym = False, "for a %s node it assigns %s and recurses into %s" % ("last-level" if last else "inner", [str(e["value"])[:80] for e in st_], rc_)
            break
    rep.check(okm, "R14.5", "orientation|thresholds", "threshold of a node = cumulative probability of its right part (last level: minus the left leaf)",
              "moveProbabilitiesFromRightSubtreesOneLevelUp: " + whym, mv.loc(), sample=True)
    # ---------------------------------------------------------------- R14.7
    mh = F.one(X + "GNode::MakeHuffTree")
    rep.analysed(mh)
    gh = CFG(mh)
    mts = [n for n in mh.walk() if n.get("k") == "mcall" and (n.get("callee") or "").endswith("::makeTree") and n["id"] in gh.where]
    ses = [n for n in mh.walk() if n.get("k") == "mcall" and (n.get("callee") or "").endswith("::setEvents") and n["id"] in gh.where]
    rep.floor("R14.7", len(mts) + len(ses), 2, "setEvents / makeTree calls in GNode::MakeHuffTree")
    ok_arg = all("events_" in show(n["args"][0]) for n in ses if n.get("args"))
    exits_ = [b for b in gh.exit_blocks(normal=True) if b in gh.reachable_blocks()]
    always = all(any(gh.where[n["id"]][0] == b or gh.dominates_block(gh.where[n["id"]][0], b) for n in grp) for b in exits_ for grp in (mts, ses))
    why = ""
    if not always:
        # which member flags gate the rebuild, and which event-list mutators forget to reset them
        flags = set()
        for n in mh.walk():
            if n.get("k") == "member" and n.get("fname") and n.get("fname") != "events_" and gh.cond_blocks(n["id"]) and any(
                    gh.edge_required(n["id"], v, mts[0]["id"]) is True for v in (True, False)):
                flags.add(n["fname"])
        muts = []
        for f_ in F.funcs:
            if not f_.qname.startswith(X + "GNode::") or f_.j["template"] == "pattern":
                continue
            ch = [n for n in f_.walk() if n.get("k") == "mcall" and re.search(r"::(push_back|emplace_back|clear|erase|pop_back|resize|insert|assign|operator=)$", n.get("callee") or "")
                  and show(n.get("obj") or {}).replace("this->", "") == "events_"]
            if not ch:
                continue
            resets = {show(n["lhs"]).replace("this->", "") for n in f_.walk() if n.get("k") in ("assign", "binop") and n.get("op") == "=" and show(n["rhs"]) in ("false", "0")}
            if not flags or not flags <= resets:
                muts.append(f_.qname.split("::")[-1])
        why = ("the rebuild is skipped on some path (guarded by %s) and %s change(s) events_ without resetting the guard: after build -> %s -> InitEscapeRate -> MakeHuffTree the tree is "
               "stale - the new event is never selected and the other events are selected with rate/(escape rate - new rate)" % (sorted(flags) or "a condition", sorted(set(muts)) or "no recognised mutator", (sorted(set(muts)) or ["?"])[0])) \
            if (muts or not flags) else ""
    rep.check(ok_arg and (always or not why), "R14.7", "tree-rebuilt-from-current-events", "setEvents(&events_) and makeTree() on every call of MakeHuffTree" if always else "cached tree: every mutator of events_ resets the flag",
              "GNode::MakeHuffTree: " + (why or "setEvents is not given &events_"), mh.loc(), sample=True)

    # ---------------------------------------------------------------- R14.6
    wd = F.one(X + "QMPair::WriteData")
    rd = F.one(X + "QMPair::ReadData")
    rep.analysed(wd)
    rep.analysed(rd)
    rec_w = wd.j["params"][0]["name"]
    rec_r = rd.j["params"][0]["name"]
    fw_ = Fold(wd, inline=False).run()
    fr_ = Fold(rd, inline=False, record_calls=r"setValue$").run()
    written = {}          # (member, carrier) -> record field
    for e in fw_.events:
        if e["kind"] != "store" or e.get("guard") or not e["target"].startswith(rec_w + "."):
            continue
        v = e["value"]
        if getattr(v, "func", None) is not None and str(v.func) == "getValue" and len(v.args) == 2:
            written.setdefault((str(v.args[0]), str(v.args[1]).split("::")[-1]), []).append(e["target"][len(rec_w) + 1:])
    readback = {}
    for e in fr_.events:
        if e["kind"] != "call" or not e["callee"].endswith("setValue") or len(e["args"]) != 2:
            continue
        a0 = str(e["args"][0])
        readback.setdefault((str(e["obj"]), str(e["args"][1]).split("::")[-1]), []).append(
            (a0[len(rec_r) + 1:] if a0.startswith(rec_r + ".") else a0, bool(e.get("guard"))))
    rep.floor("R14.6", len(written), 8, "per-carrier values written by QMPair::WriteData")
    for key in sorted(set(written) | set(readback)):
        w_, r_ = written.get(key, []), readback.get(key, [])
        ok = len(w_) == 1 and len(r_) == 1 and not r_[0][1] and r_[0][0] == w_[0]
        rep.check(ok, "R14.6", "carrier-table|%s|%s" % key, "field written from %s.getValue(%s) == field read into %s.setValue(., %s)" % (key[0], key[1], key[0], key[1]),
                  "QMPair::WriteData stores %s(%s) in record field(s) %s but QMPair::ReadData restores it from %s" % (key[0], key[1], w_, [x[0] for x in r_]), rd.loc())
    rep.assumptions += ["that the thresholds partition [0,1] proportionally to the rates is a property of the tree-construction dynamics (priority queue order): not decided",
                        "the sign convention of the field term: the code has dG = (E1-E2) + q R.F and k12/k21 = exp(dG/kT); R14.3 checks antisymmetry under exchange of the pair",
                        "uniformity of the random number generator (exponential waiting-time distribution)"]
