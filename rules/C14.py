"""C14 - KMC event selection and Marcus rates: closed-form algebra (ALG), decision tables (EXH), tree orientation (SIB)."""
import re
import sympy as sp
from vsa import front
from vsa.facts import Facts, unwrap, show, walk, lit_value
from vsa.front import AnalysisBroken
from vsa.alg import Fold, S, F as Fn, is_zero, guard_strs, vec_atoms
from vsa.cfg import CFG

LEVEL = "proof"
X = "votca::xtp::"


def nows(s):
    return re.sub(r"\s+", "", s)


def run(rep, tier):
    rep.explanation = ("ALG: Marcusrate is folded to a symbolic expression in (Jeff2, dG, lambda, T); detailed balance "
                       "k12/k21 = exp(dG/kT) for equal reorganisation energies, linearity in Jeff2 and positivity are decided as exact "
                       "identities; Rate() is folded to check how dG, its sign for the backward rate, the charge table and the field term "
                       "are assembled; the escape rate is the plain sum of event rates; the waiting time is -ln(u)/k. SIB/PATH: the "
                       "selection tree assigns both leaves wherever it marks a last-level node and uses one orientation (p > threshold "
                       "-> left) in construction, descent and leaf choice.")
    rep.rule("R14.1", "GNode::InitEscapeRate: escape_rate_ = sum over events of getRate(), starting from 0")
    rep.rule("R14.2", "Marcus rate: k(J2,dG,l) = 2pi/hbar J2/sqrt(4 pi l T) exp(-(dG-l)^2/(4 l T)); hence k(J2,dG,l)/k(J2,-dG,l) = exp(dG/T), k linear in J2, k > 0 for J2,l,T > 0")
    rep.rule("R14.3", "Rate(): dG = getdE12 + q R.F with q = -1 (electron), +1 (hole), 0 otherwise; rate12 = k(J2, dG, reorg12), rate21 = k(J2, -dG, reorg21); "
                      "near-zero reorganisation energies throw; the reverse event uses -R (GNode::AddEventfromQmPair)")
    rep.rule("R14.4", "KMCCalculator::Promotetime: dt = -ln(u)/k with u = 1 - uniform[0,1)")
    rep.rule("R14.5", "selection tree: every node flagged isOnLastLevel has both leaves assigned; inner nodes combine the two smallest and store h1 left / h2 right; "
                      "probability shifting, descent and leaf choice all use 'p > threshold -> left'")
    units = [front.repo("xtp/src/libxtp/" + u) for u in ("rate_engine.cc", "gnode.cc", "kmccalculator.cc")]
    F = Facts(front.export(units))
    rep.units = units
    rep.trusted.append("sympy exact algebra")
    rep.assumptions.append("xtp is not built in this sandbox: units are parsed with synthesised flags")

    # ---------------------------------------------------------------- R14.1
    ie = F.one(X + "GNode::InitEscapeRate")
    rep.analysed(ie)
    fo = Fold(ie).run()
    st = [e for e in fo.events if e["kind"] == "store" and e["target"] == "escape_rate_"]
    final = fo.exit_env().get(("field", "escape_rate_"))
    ok = final is not None and str(getattr(final, "func", "")).startswith("SUM_") and re.match(r"^getRate\(event@L\d+\)$", str(final.args[0])) is not None
    loops = [n for n in ie.walk() if n.get("k") == "rangefor"]
    ok = ok and len(loops) == 1 and nows(show(loops[0]["range"])) == "events_"
    rep.check(ok, "R14.1", "escape-rate", "escape_rate_ = 0 + SUM getRate(event) over events_", "GNode::InitEscapeRate computes %s" % final, ie.loc(), sample=True)

    # ---------------------------------------------------------------- R14.2
    mr = F.one(X + "Rate_Engine::Marcusrate")
    rep.analysed(mr)
    J, dG, lam = [sp.Symbol(n, positive=(n != "dG"), real=True) for n in ("J2", "dG", "lam")]
    Tm = sp.Symbol("T", positive=True)
    hbar = sp.Symbol("hbar", positive=True)
    pi = sp.pi

    def atom(fold, n, env):
        if n.get("k") == "ref" and n.get("dk") == "global":
            nm = n["qname"].split("::")[-1]
            if nm == "Pi":
                return pi
            if nm in ("hbar", "ev2hrt"):
                return hbar if nm == "hbar" else sp.Integer(1)
        if n.get("k") == "member" and n.get("fname") == "temperature_":
            return Tm
        return NotImplemented
    ps = mr.j["params"]
    fo = Fold(mr, atom=atom).run({ps[0]["decl"]: J, ps[1]["decl"]: dG, ps[2]["decl"]: lam})
    if len(fo.returns) != 1:
        raise AnalysisBroken("Marcusrate: expected one return")
    k = fo.returns[0][0]
    want = 2 * pi / hbar * J / sp.sqrt(4 * pi * lam * Tm) * sp.exp(-(dG - lam) ** 2 / (4 * lam * Tm))
    rep.check(sp.simplify(k / want) == 1, "R14.2", "marcus-formula", "k = 2pi/hbar J2/sqrt(4 pi l T) exp(-(dG-l)^2/(4 l T))", "Rate_Engine::Marcusrate returns %s" % k, mr.loc(), sample=True)
    ratio = sp.simplify(sp.log(sp.simplify(k / k.subs(dG, -dG))))
    rep.check(sp.simplify(sp.expand(ratio) - dG / Tm) == 0, "R14.2", "detailed-balance", "ln(k(dG)/k(-dG)) = dG/T for equal reorganisation energies",
              "Marcus forward/backward rates violate detailed balance: ln(k12/k21) = %s, required dG/T" % sp.expand(ratio), mr.loc(), sample=True)
    rep.check(sp.simplify(sp.diff(k, J) * J - k) == 0, "R14.2", "linear-in-J2", "rate proportional to Jeff2", "Marcusrate is not linear in the squared coupling", mr.loc(), sample=True)
    rep.check(k.is_positive is True, "R14.2", "positive", "rate > 0 for J2, lambda, T > 0", "Marcusrate is not manifestly positive: %s" % k, mr.loc(), sample=True)

    # ---------------------------------------------------------------- R14.3
    rt = F.one(X + "Rate_Engine::Rate")
    rep.analysed(rt)
    calls = []

    def hook(fold, n, env):
        if n.get("k") == "mcall" and n.get("callee") == X + "Rate_Engine::Marcusrate":
            calls.append([fold.ev(a, env) for a in n["args"]])
            return S("k%d" % len(calls))
        return NotImplemented
    fo = Fold(rt, call=hook).run()
    ok, why = False, "expected two Marcusrate calls, found %d" % len(calls)
    if len(calls) == 2:
        (j1, g1, l1), (j2, g2, l2) = calls
        chg = Fn("ite")(S("(carriertype == votca::xtp::QMStateType::Electron)"), -1, Fn("ite")(S("(carriertype == votca::xtp::QMStateType::Hole)"), 1, 0))
        s_g1 = str(g1)
        ok = is_zero(g1 + g2) and j1 == j2 and "getJeff2(pair, carriertype)" in str(j1)
        why = "rate21 is evaluated with dG' = %s (must be -dG) / couplings %s, %s" % (g2, j1, j2)
        if ok:
            ok = "getdE12(pair, carriertype)" in s_g1 and "R(pair)" in s_g1 and "field_" in s_g1
            site = S("getdE12(pair, carriertype)")
            fld = sp.expand(g1 - Fn("getdE12")(S("pair"), S("carriertype")))
            ok = ok and not fld.has(Fn("getdE12")(S("pair"), S("carriertype")))
            why = "dG = %s is not getdE12 + q R.F" % s_g1[:200]
        if ok:
            l1s, l2s = str(l1), str(l2)
            ok = "getReorg12" in l1s and "getReorg21" in l2s and is_zero((l1 - Fn("getReorg12")(S("pair"), S("carriertype"))) + (l2 - Fn("getReorg21")(S("pair"), S("carriertype"))))
            why = "reorganisation energies are %s and %s" % (l1s, l2s)
    rep.check(ok, "R14.3", "rate-assembly", "rate12 = k(J2, dG, reorg12), rate21 = k(J2, -dG, reorg21), dG = dE12 + q R.F", "Rate_Engine::Rate: " + why, rt.loc(), sample=True)
    # charge table and field term: the driving force of rate12 for each carrier kind
    from vsa.cases import decide, resolve_ite, ites
    conds_ = getattr(fo, "conds", {})

    def carrier_oracle(leaf):
        if isinstance(leaf, tuple) and len(leaf) == 3 and leaf[0] in ("==", "!="):
            a_, b_ = str(leaf[1]), str(leaf[2])
            for nm in ("Electron", "Hole"):
                if a_.endswith("::" + nm) or b_.endswith("::" + nm):
                    return ("is" + nm, leaf[0] == "==")
        return None
    okq, okf, got = len(calls) == 2, len(calls) == 2, {}
    if len(calls) == 2:
        g1 = calls[0][1]
        pn, cn = rt.j["params"][0]["name"], rt.j["params"][1]["name"]
        de = Fn("getdE12")(S(pn), S(cn))
        RF = sum(a_ * b_ for a_, b_ in zip(vec_atoms("R(%s)" % pn), vec_atoms("field_")))
        for kind, q_ in (("Electron", -1), ("Hole", 1), ("other", 0)):
            atoms = {"isElectron": kind == "Electron", "isHole": kind == "Hole"}
            v = resolve_ite(g1, lambda cs: decide(conds_.get(cs), None, atoms, carrier_oracle, conds_) if cs in conds_ else None) if hasattr(g1, "args") else g1
            if isinstance(v, (tuple, sp.Matrix)) or ites(v):
                raise AnalysisBroken("Rate_Engine::Rate: the driving force depends on a condition the rule does not know: %s" % str(v)[:160])
            fld = sp.expand(v - de)
            got[kind] = fld
            if fld.has(de.func):
                okf = False
            elif sp.expand(fld - q_ * RF) != 0:
                # q wrong (a multiple of R.F) or the field term is not R.F
                ratio = sp.cancel(fld / RF) if fld != 0 else sp.Integer(0)
                if getattr(ratio, "is_number", False):
                    okq = False
                else:
                    okf = False
    rep.check(bool(okq), "R14.3", "charge-table", "electron -1, hole +1, otherwise 0", "the field contribution to dG per carrier kind is %s x (R . F); required -1 (electron), +1 (hole), 0 (otherwise)" % (
        {k_: str(sp.cancel(v_ / RF)) if v_ != 0 else "0" for k_, v_ in got.items()} if len(calls) == 2 else "?"), rt.loc(), sample=True)
    rep.check(bool(okf), "R14.3", "field-term", "dG_Field = q * R . F", "the field term of the driving force is %s, not q (R . F)" % {k_: str(v_)[:80] for k_, v_ in got.items()}, rt.loc())
    thr = [" & ".join(guard_strs(fo, t)) for t in fo.throws]
    ok = any("Abs(" in t and "getReorg12" in t and "getReorg21" in t and "1/1000000000000" in t and "||" in t for t in thr)
    rep.check(ok, "R14.3", "zero-reorg-throws", "|reorg| < 1e-12 -> throw", "near-zero reorganisation energies do not throw (guards: %s)" % [t[:120] for t in thr], rt.loc())
    ae = F.one(X + "GNode::AddEventfromQmPair")
    rep.analysed(ae)
    drs = {}
    for n in ae.walk():
        if n.get("k") == "opcall" and n.get("op") == "=" and nows(show(n["args"][0])) == "dr":
            conds = [a for a in ae.ancestors(n) if a.get("k") == "if"]
            in_then = conds and any(x.get("id") == n["id"] for x in walk(conds[0]["then"]))
            drs["seg1" if in_then else "seg2"] = nows(show(n["args"][1]))
    dest = {}
    for n in ae.walk():
        if n.get("k") == "assign" and n["op"] == "=" and nows(show(n["lhs"])) == "destination":
            conds = [a for a in ae.ancestors(n) if a.get("k") == "if"]
            in_then = conds and any(x.get("id") == n["id"] for x in walk(conds[0]["then"]))
            dest["seg1" if in_then else "seg2"] = nows(show(n["rhs"]))
    cond = [nows(show(n["cond"])) for n in ae.walk() if n.get("k") == "if"]
    ok = cond == ["(id_==pair.Seg1()->getId())"] and drs == {"seg1": "pair.R()", "seg2": "-pair.R()"} and dest == {"seg1": "pair.Seg2()->getId()", "seg2": "pair.Seg1()->getId()"}
    rep.check(ok, "R14.3", "reverse-event", "events from seg1 go to seg2 with +R, from seg2 to seg1 with -R", "AddEventfromQmPair: cond %s, dr %s, destination %s" % (cond, drs, dest), ae.loc(), sample=True)

    # ---------------------------------------------------------------- R14.4
    pt = F.one(X + "KMCCalculator::Promotetime")
    rep.analysed(pt)
    fo = Fold(pt).run()
    v = fo.returns[0][0] if fo.returns else None
    u = Fn("rand_uniform")(S("RandomVariable_"))
    kk = S(pt.j["params"][0]["name"])
    ok = v is not None and sp.simplify(v + sp.log(1 - u) / kk) == 0
    rep.check(ok, "R14.4", "waiting-time", "dt = -ln(1-U)/k", "KMCCalculator::Promotetime returns %s (required -ln(u)/k: exponentially distributed with the escape rate)" % v, pt.loc(), sample=True)

    # ---------------------------------------------------------------- R14.5
    mk = [f for f in F.funcs if f.qname.endswith("huffmanTree<votca::xtp::GLink>::makeTree") or (f.qname.endswith("::makeTree") and "huffmanTree" in f.qname and f.j["template"] != "pattern")]
    fh = [f for f in F.funcs if f.qname.endswith("::findHoppingDestination") and "huffmanTree" in f.qname and f.j["template"] != "pattern"]
    ad = [f for f in F.funcs if f.qname.endswith("::addProbabilityFromRightSubtreeToLeftSubtree") and f.j["template"] != "pattern"]
    mv = [f for f in F.funcs if f.qname.endswith("::moveProbabilitiesFromRightSubtreesOneLevelUp") and f.j["template"] != "pattern"]
    if not (mk and fh and ad and mv):
        # fall back to the template patterns
        pick = lambda suffix: [f for f in F.funcs if f.qname.endswith(suffix) and "huffmanTree" in f.qname]
        mk, fh, ad, mv = pick("::makeTree"), pick("::findHoppingDestination"), pick("::addProbabilityFromRightSubtreeToLeftSubtree"), pick("::moveProbabilitiesFromRightSubtreesOneLevelUp")
    if not (mk and fh and ad and mv):
        raise AnalysisBroken("huffmanTree functions not found")
    mk, fh, ad, mv = mk[0], fh[0], ad[0], mv[0]
    for f in (mk, fh, ad, mv):
        rep.analysed(f)
    g = CFG(mk) if mk.j.get("cfg") else None
    flags = [n for n in mk.walk() if n.get("k") == "assign" and n["op"] == "=" and nows(show(n["lhs"])).endswith(".isOnLastLevel")]
    rep.floor("R14.5", len(flags), 2, "last-level flag sites")
    for i, fl in enumerate(flags):
        # both leaves assigned in the same compound statement
        comp = next(a for a in mk.ancestors(fl) if a.get("k") == "compound")
        txt = [nows(show(x["lhs"])) for x in walk(comp) if x.get("k") == "assign" and x["op"] == "="]
        ok = any(t.endswith(".leftLeaf") for t in txt) and any(t.endswith(".rightLeaf") for t in txt)
        rep.check(ok, "R14.5", "leaves-assigned#%d" % i, "last-level node gets both leaves", "makeTree marks a node as last level without assigning both leaves (a lookup can return a null/stale event)", mk.loc(fl), sample=True)
    inner = {nows(show(n["lhs"])).split(".")[-1]: nows(show(n["rhs"])) for n in mk.walk() if n.get("k") == "assign" and n["op"] == "=" and
             nows(show(n["lhs"])).split(".")[-1] in ("leftChild", "rightChild")}
    probs = [nows(show(n["rhs"])) for n in mk.walk() if n.get("k") == "assign" and n["op"] == "=" and nows(show(n["lhs"])).endswith(".probability") and "h1" in show(n["rhs"])]
    ok = inner == {"leftChild": "h1", "rightChild": "h2"} and probs == ["(h1->probability+h2->probability)"]
    rep.check(ok, "R14.5", "inner-nodes", "inner node = h1 (left) + h2 (right), probability = sum", "makeTree builds inner nodes as %s with probability %s" % (inner, probs), mk.loc())
    leafp = [nows(show(n["rhs"])) for n in mk.walk() if n.get("k") == "assign" and n["op"] == "=" and nows(show(n["lhs"])).endswith(".probability") and "getValue" in show(n["rhs"])]
    ok = len(leafp) == 2 and all(p.endswith("/sum_of_values)") or p.endswith("/sum_of_values") for p in leafp) and "leftLeaf->getValue()+" in leafp[0] and "rightLeaf->getValue()" in leafp[0]
    rep.check(ok, "R14.5", "leaf-probabilities", "last-level probability = (left + right)/sum (single leaf: value/sum)", "makeTree leaf-level probabilities are %s" % leafp, mk.loc(), sample=True)
    fmk = Fold(mk).run()
    sv = fmk.exit_env().get(("field", "sum_of_values"))
    oks, whys = False, "sum_of_values is not assigned"
    if sv is not None and not isinstance(sv, (tuple, sp.Matrix)):
        sums = [a for a in sp.preorder_traversal(sv) if str(getattr(a, "func", "")).startswith("SUM_")]
        stale = S("sum_of_values") in sv.free_symbols
        oks = not stale and len(sums) == 1 and sp.simplify(sv - sums[0]) == 0 and str(getattr(sums[0].args[0], "func", "")) == "getValue"
        whys = ("the normaliser is %s: it still contains its value from before the call, so building the tree a second time (kmclifetime rebuilds it after adding decay events) "
                "normalises with the sum of both builds and the selection intervals no longer have length rate/escape_rate" % sv) if stale else "the normaliser is %s, not the sum of all event values" % sv
    rep.check(oks, "R14.5", "normaliser", "sum_of_values = sum of the event values of this build (independent of any earlier build)", "makeTree: " + whys, mk.loc(), sample=True)
    # orientation: descent, leaf choice, probability shifting
    desc = [n for n in fh.walk() if n.get("k") == "if" and "probability" in show(n["cond"])]
    okd = len(desc) == 1 and nows(show(desc[0]["cond"])) == "(p>node->probability)" and "leftChild" in show(desc[0]["then"]["stmts"][0] if desc[0]["then"].get("k") == "compound" else desc[0]["then"]) \
        and "rightChild" in show((desc[0]["else"]["stmts"][0] if desc[0]["else"].get("k") == "compound" else desc[0]["else"]))
    rets = [n for n in fh.walk() if n.get("k") == "return"]
    okl = any(nows(show(r["value"])) == "((p>node->probability)?node->leftLeaf:node->rightLeaf)" for r in rets)
    rep.check(okd and okl, "R14.5", "orientation|lookup", "descent and leaf choice: p > threshold -> left", "findHoppingDestination orientation differs between descent (%s) and leaf choice (%s)" % (
        show(desc[0]["cond"]) if desc else "?", [show(r["value"]) for r in rets][-1:]), fh.loc(), sample=True)
    rec = [n for n in ad.walk() if n.get("k") == "mcall" and n.get("callee", "").endswith("addProbabilityFromRightSubtreeToLeftSubtree")]
    args = {nows(show(r["args"][0])): nows(show(r["args"][1])) for r in rec}
    oka = args == {"n->leftChild": "(add+n->rightChild->probability)", "n->rightChild": "add"}
    rep.check(oka, "R14.5", "orientation|shift", "left subtree receives add + P(right), right subtree add", "addProbabilityFromRightSubtreeToLeftSubtree recursion is %s" % args, ad.loc(), sample=True)
    mvt = {nows(show(n["lhs"] if n.get("k") == "assign" else n["args"][0])): nows(show(n["rhs"] if n.get("k") == "assign" else n["args"][1])) for n in mv.walk()
           if n.get("k") == "assign" and "probability" in show(n["lhs"])}
    okm = mvt.get("n->probability") in ("n->rightChild->probability", "(n->leftLeaf->getValue()/sum_of_values)") or any("rightChild->probability" in v for v in mvt.values())
    lastlvl = [n for n in mv.walk() if n.get("k") == "assign" and n["op"] == "-=" and nows(show(n["lhs"])) == "n->probability"]
    okm = okm and len(lastlvl) == 1 and nows(show(lastlvl[0]["rhs"])) == "(n->leftLeaf->getValue()/sum_of_values)"
    rep.check(okm, "R14.5", "orientation|thresholds", "threshold of a node = cumulative probability of its right part (last level: minus the left leaf)",
              "moveProbabilitiesFromRightSubtreesOneLevelUp assigns %s / last level %s" % (mvt, [show(x["rhs"]) for x in lastlvl]), mv.loc())
    rep.assumptions += ["that the thresholds partition [0,1] proportionally to the rates is a property of the tree-construction dynamics (priority queue order): not decided",
                        "the sign convention of the field term: the code has dG = (E1-E2) + q R.F and k12/k21 = exp(dG/kT); R14.3 checks antisymmetry under exchange of the pair",
                        "uniformity of the random number generator (exponential waiting-time distribution)"]
