#!/usr/bin/env python3
"""regenerates DESIGN.md appendix C (rules as built) from the evidence files: tools/gen_appendix_c.py"""
import json, os, re
V = os.path.dirname(os.path.dirname(os.path.abspath(__file__)))
rows, nr, no = [], 0, 0


def key(r):
    m = re.match(r"R(\d+)\.(\d+)", r)
    return (int(m.group(1)), int(m.group(2))) if m else (0, 0)
for i in range(1, 21):
    pid = "C%02d" % i
    e = json.load(open(os.path.join(V, "evidence", pid + ".json")))
    rules, per = e["coverage"].get("rules", {}), e["coverage"].get("per_rule", {})
    for r in sorted(rules, key=key):
        n = sum(per.get(r, {}).values())
        rows.append("| %s | %s | %s | %d |" % (pid, r, rules[r].replace("|", "\\|"), n))
        nr += 1
        no += n
txt = ("## Appendix C — rules as built (generated from the evidence files)\n\n"
       "One line per rule the checks apply today (%d rules, %d obligations in the quick tier); the evidence file of each property carries the same texts "
       "with the obligations counted per rule. Regenerate with `tools/gen_appendix_c.py`.\n\n"
       "| property | rule | what must hold | obligations (quick tier) |\n|---|---|---|---|\n" % (nr, no)) + "\n".join(rows) + "\n"
p = os.path.join(V, "DESIGN.md")
s = open(p).read()
s = s[:s.index("## Appendix C — rules as built")] + txt
open(p, "w").write(s)
print(nr, "rules", no, "obligations")
