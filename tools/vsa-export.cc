// vsa-export: libTooling front end that dumps type-checked facts about one
// translation unit as JSON (one file per unit).  It has no rule knowledge.
//
//   vsa-export --out=F.json [--root=/repo/] [--names=REGEX] unit.cc -- <clang flags>
//
// For every function definition whose file lies under --root (and whose
// qualified name matches --names, if given) it emits: declaration facts, the
// structured body with expression trees (implicit wrappers stripped, resolved
// callees and fields), and the clang CFG (setAllAlwaysAdd).  It also emits
// records (bases, fields, methods with override sets), enums and
// constant-evaluated namespace-scope constants.
#include "clang/AST/ASTConsumer.h"
#include "clang/AST/ASTContext.h"
#include "clang/AST/DeclCXX.h"
#include "clang/AST/DeclTemplate.h"
#include "clang/AST/ExprCXX.h"
#include "clang/AST/RecursiveASTVisitor.h"
#include "clang/AST/StmtCXX.h"
#include "clang/Analysis/CFG.h"
#include "clang/Frontend/CompilerInstance.h"
#include "clang/Frontend/FrontendAction.h"
#include "clang/Tooling/CommonOptionsParser.h"
#include "clang/Tooling/Tooling.h"
#include "llvm/ADT/DenseMap.h"
#include "llvm/Support/CommandLine.h"
#include "llvm/Support/JSON.h"
#include "llvm/Support/Regex.h"
#include "llvm/Support/raw_ostream.h"
#include <set>
#include <string>

using namespace clang;
namespace json = llvm::json;

static llvm::cl::OptionCategory Cat("vsa-export");
static llvm::cl::opt<std::string> OutFile("out", llvm::cl::desc("output json"),
                                          llvm::cl::cat(Cat));
static llvm::cl::opt<std::string> Root("root", llvm::cl::init("/repo/"),
                                       llvm::cl::cat(Cat));
static llvm::cl::opt<std::string> Names("names", llvm::cl::init(""),
                                        llvm::cl::cat(Cat));
static llvm::cl::opt<bool> NoCfg("no-cfg", llvm::cl::init(false),
                                 llvm::cl::cat(Cat));

namespace {

class Exporter {
 public:
  Exporter(ASTContext &C) : Ctx(C), SM(C.getSourceManager()), PP(C.getLangOpts()) {
    PP.SuppressTagKeyword = true;
    PP.Bool = true;
    PP.SuppressUnwrittenScope = false;
  }
  ASTContext &Ctx;
  SourceManager &SM;
  PrintingPolicy PP;
  llvm::DenseMap<const Stmt *, int> Ids;
  llvm::DenseMap<const Decl *, int> DeclIds;
  int NextId = 0;
  int NextDecl = 0;

  std::string fileOf(SourceLocation L) {
    if (L.isInvalid()) return "";
    L = SM.getExpansionLoc(L);
    auto F = SM.getFilename(L);
    if (F.empty()) return "";
    llvm::SmallString<256> P(F);
    SM.getFileManager().makeAbsolutePath(P);
    llvm::sys::path::remove_dots(P, true);
    return std::string(P.str());
  }
  int lineOf(SourceLocation L) {
    if (L.isInvalid()) return 0;
    return (int)SM.getExpansionLineNumber(L);
  }
  std::string ty(QualType T) {
    if (T.isNull()) return "";
    return T.getCanonicalType().getAsString(PP);
  }
  std::string tyAsWritten(QualType T) {
    if (T.isNull()) return "";
    return T.getAsString(PP);
  }
  int declId(const Decl *D) {
    auto It = DeclIds.find(D);
    if (It != DeclIds.end()) return It->second;
    int I = NextDecl++;
    DeclIds[D] = I;
    return I;
  }
  static std::string qname(const NamedDecl *D) {
    if (!D) return "";
    return D->getQualifiedNameAsString();
  }

  // ---------------------------------------------------------------- exprs
  const Expr *strip1(const Expr *E) {
    if (auto *P = dyn_cast<ParenExpr>(E)) return P->getSubExpr();
    if (auto *P = dyn_cast<ExprWithCleanups>(E)) return P->getSubExpr();
    if (auto *P = dyn_cast<MaterializeTemporaryExpr>(E)) return P->getSubExpr();
    if (auto *P = dyn_cast<CXXBindTemporaryExpr>(E)) return P->getSubExpr();
    if (auto *P = dyn_cast<ConstantExpr>(E)) return P->getSubExpr();
    if (auto *P = dyn_cast<SubstNonTypeTemplateParmExpr>(E)) return P->getReplacement();
    if (auto *P = dyn_cast<CXXDefaultArgExpr>(E)) return P->getExpr();
    if (auto *P = dyn_cast<CXXDefaultInitExpr>(E)) return P->getExpr();
    if (auto *P = dyn_cast<ImplicitCastExpr>(E)) {
      switch (P->getCastKind()) {
        case CK_FloatingToIntegral:
        case CK_IntegralToFloating:
          return nullptr;
        default:
          return P->getSubExpr();
      }
    }
    if (auto *P = dyn_cast<CXXConstructExpr>(E)) {
      if (P->getNumArgs() == 1 && !isa<CXXTemporaryObjectExpr>(P)) {
        const CXXConstructorDecl *CD = P->getConstructor();
        if (CD && CD->isCopyOrMoveConstructor()) return P->getArg(0);
      }
    }
    return nullptr;
  }

  json::Value exprOrNull(const Expr *E) {
    if (!E) return nullptr;
    return expr(E);
  }

  json::Value expr(const Expr *E0) {
    std::vector<const Stmt *> Wrappers;
    const Expr *E = E0;
    while (const Expr *N = strip1(E)) {
      Wrappers.push_back(E);
      E = N;
    }
    int Id = NextId++;
    for (auto *W : Wrappers) Ids[W] = Id;
    Ids[E] = Id;
    json::Object O;
    O["id"] = Id;
    O["line"] = lineOf(E->getBeginLoc());
    exprBody(E, O);
    return std::move(O);
  }

  json::Array args(llvm::ArrayRef<const Expr *> A) {
    json::Array R;
    for (auto *X : A) R.push_back(exprOrNull(X));
    return R;
  }

  void refDecl(const ValueDecl *D, json::Object &O) {
    O["name"] = D->getNameAsString();
    O["type"] = ty(D->getType());
    if (auto *V = dyn_cast<VarDecl>(D)) {
      if (isa<ParmVarDecl>(V)) {
        O["dk"] = "param";
        O["decl"] = declId(V);
      } else if (V->isLocalVarDecl() || V->isLocalVarDeclOrParm()) {
        O["dk"] = V->isStaticLocal() ? "staticlocal" : "local";
        O["decl"] = declId(V);
      } else {
        O["dk"] = "global";
        O["qname"] = qname(V);
      }
      QualType T = V->getType().getNonReferenceType();
      if (T.isConstQualified() && T->isArithmeticType() && V->hasInit() &&
          !V->getInit()->isValueDependent()) {
        Expr::EvalResult R;
        if (V->getInit()->EvaluateAsRValue(R, Ctx) && !R.HasSideEffects) {
          O["cval"] = apval(R.Val);
        }
      }
    } else if (auto *F = dyn_cast<FunctionDecl>(D)) {
      O["dk"] = "func";
      O["qname"] = qname(F);
    } else if (auto *EC = dyn_cast<EnumConstantDecl>(D)) {
      O["dk"] = "enumconst";
      O["qname"] = qname(EC);
      O["value"] = (int64_t)EC->getInitVal().getExtValue();
    } else if (isa<BindingDecl>(D)) {
      O["dk"] = "binding";
      O["decl"] = declId(D);
    } else if (isa<FieldDecl>(D)) {
      O["dk"] = "field";
      O["qname"] = qname(D);
    } else {
      O["dk"] = "other";
      O["qname"] = qname(D);
    }
  }

  std::string apval(const APValue &V) {
    if (V.isInt()) return llvm::toString(V.getInt(), 10);
    if (V.isFloat()) {
      llvm::SmallString<40> S;
      V.getFloat().toString(S, 17, 0, false);
      return std::string(S.str());
    }
    return "?";
  }

  void calleeFacts(const FunctionDecl *FD, json::Object &O) {
    if (!FD) return;
    O["callee"] = qname(FD);
    if (FD->isTemplateInstantiation()) {
      std::string TS;
      llvm::raw_string_ostream TOS(TS);
      FD->getNameForDiagnostic(TOS, PP, false);
      O["callee_targs"] = TOS.str();
    }
    if (auto *M = dyn_cast<CXXMethodDecl>(FD)) {
      O["callee_class"] = qname(M->getParent());
      if (M->isVirtual()) O["virtual"] = true;
      if (M->isConst()) O["const_method"] = true;
      if (M->isStatic()) O["static_method"] = true;
    }
    if (FD->isNoReturn()) O["noreturn"] = true;
    O["ret"] = ty(FD->getReturnType());
    json::Array PT;
    for (auto *P : FD->parameters()) PT.push_back(ty(P->getType()));
    O["ptypes"] = std::move(PT);
  }

  void exprBody(const Expr *E, json::Object &O) {
    if (auto *L = dyn_cast<IntegerLiteral>(E)) {
      O["k"] = "int";
      O["v"] = llvm::toString(L->getValue(), 10, L->getType()->isSignedIntegerType());
      return;
    }
    if (auto *L = dyn_cast<FloatingLiteral>(E)) {
      O["k"] = "float";
      // source spelling keeps the exact decimal the programmer wrote
      SourceLocation B = SM.getSpellingLoc(L->getBeginLoc());
      bool Inv = false;
      const char *P = SM.getCharacterData(B, &Inv);
      std::string Sp;
      if (!Inv && P) {
        while (*P && (isalnum(*P) || *P == '.' || *P == '+' || *P == '-' ) ) {
          if ((*P == '+' || *P == '-') && !(Sp.size() && (Sp.back() == 'e' || Sp.back() == 'E'))) break;
          Sp.push_back(*P++);
        }
      }
      llvm::SmallString<40> S;
      L->getValue().toString(S, 17, 0, false);
      O["v"] = std::string(S.str());
      O["text"] = Sp;
      return;
    }
    if (auto *L = dyn_cast<StringLiteral>(E)) {
      O["k"] = "str";
      if (L->isAscii() || L->isUTF8()) O["v"] = L->getString().str();
      else O["v"] = "?";
      return;
    }
    if (auto *L = dyn_cast<CharacterLiteral>(E)) {
      O["k"] = "char";
      O["v"] = (int64_t)L->getValue();
      return;
    }
    if (auto *L = dyn_cast<CXXBoolLiteralExpr>(E)) {
      O["k"] = "bool";
      O["v"] = L->getValue();
      return;
    }
    if (isa<CXXNullPtrLiteralExpr>(E) || isa<GNUNullExpr>(E)) {
      O["k"] = "null";
      return;
    }
    if (isa<CXXThisExpr>(E)) {
      O["k"] = "this";
      O["type"] = ty(E->getType());
      return;
    }
    if (auto *R = dyn_cast<DeclRefExpr>(E)) {
      O["k"] = "ref";
      refDecl(R->getDecl(), O);
      return;
    }
    if (auto *M = dyn_cast<MemberExpr>(E)) {
      O["k"] = "member";
      O["base"] = expr(M->getBase());
      O["arrow"] = M->isArrow();
      O["field"] = qname(M->getMemberDecl());
      O["fname"] = M->getMemberDecl()->getNameAsString();
      O["type"] = ty(M->getType());
      if (isa<CXXMethodDecl>(M->getMemberDecl())) O["is_method"] = true;
      return;
    }
    if (auto *C = dyn_cast<CXXOperatorCallExpr>(E)) {
      O["k"] = "opcall";
      O["op"] = getOperatorSpelling(C->getOperator());
      calleeFacts(C->getDirectCallee(), O);
      json::Array A;
      for (auto *X : C->arguments()) A.push_back(exprOrNull(X));
      O["args"] = std::move(A);
      O["type"] = ty(E->getType());
      return;
    }
    if (auto *C = dyn_cast<CXXMemberCallExpr>(E)) {
      O["k"] = "mcall";
      const CXXMethodDecl *MD = C->getMethodDecl();
      calleeFacts(MD, O);
      if (MD && isa<CXXConversionDecl>(MD)) O["conversion"] = true;
      if (const Expr *Obj = C->getImplicitObjectArgument()) O["obj"] = expr(Obj);
      if (auto *ME = dyn_cast<MemberExpr>(C->getCallee()->IgnoreParenImpCasts())) {
        O["arrow"] = ME->isArrow();
        if (ME->hasQualifier()) O["qualified"] = true;  // non-virtual dispatch
      }
      if (!MD) O["callee_expr"] = expr(C->getCallee());
      json::Array A;
      for (auto *X : C->arguments()) A.push_back(exprOrNull(X));
      O["args"] = std::move(A);
      O["type"] = ty(E->getType());
      return;
    }
    if (auto *C = dyn_cast<CallExpr>(E)) {
      O["k"] = "call";
      const FunctionDecl *FD = C->getDirectCallee();
      calleeFacts(FD, O);
      if (!FD) O["callee_expr"] = expr(C->getCallee());
      json::Array A;
      for (auto *X : C->arguments()) A.push_back(exprOrNull(X));
      O["args"] = std::move(A);
      O["type"] = ty(E->getType());
      return;
    }
    if (auto *C = dyn_cast<CXXConstructExpr>(E)) {
      O["k"] = "construct";
      O["type"] = ty(E->getType());
      if (C->getConstructor()) O["callee"] = qname(C->getConstructor());
      if (isa<CXXTemporaryObjectExpr>(C)) O["temporary"] = true;
      json::Array A;
      for (auto *X : C->arguments()) A.push_back(exprOrNull(X));
      O["args"] = std::move(A);
      return;
    }
    if (auto *C = dyn_cast<CXXUnresolvedConstructExpr>(E)) {
      O["k"] = "construct";
      O["type"] = ty(C->getTypeAsWritten());
      O["unresolved"] = true;
      json::Array A;
      for (auto *X : C->arguments()) A.push_back(exprOrNull(X));
      O["args"] = std::move(A);
      return;
    }
    if (auto *B = dyn_cast<CompoundAssignOperator>(E)) {
      O["k"] = "assign";
      O["op"] = B->getOpcodeStr().str();
      O["lhs"] = expr(B->getLHS());
      O["rhs"] = expr(B->getRHS());
      O["type"] = ty(E->getType());
      return;
    }
    if (auto *B = dyn_cast<BinaryOperator>(E)) {
      if (B->isAssignmentOp()) O["k"] = "assign";
      else O["k"] = "binop";
      O["op"] = B->getOpcodeStr().str();
      O["lhs"] = expr(B->getLHS());
      O["rhs"] = expr(B->getRHS());
      O["type"] = ty(E->getType());
      return;
    }
    if (auto *U = dyn_cast<UnaryOperator>(E)) {
      O["k"] = "unop";
      O["op"] = UnaryOperator::getOpcodeStr(U->getOpcode()).str();
      if (U->isPostfix()) O["postfix"] = true;
      O["sub"] = expr(U->getSubExpr());
      O["type"] = ty(E->getType());
      return;
    }
    if (auto *C = dyn_cast<ConditionalOperator>(E)) {
      O["k"] = "cond";
      O["cond"] = expr(C->getCond());
      O["then"] = expr(C->getTrueExpr());
      O["else"] = expr(C->getFalseExpr());
      O["type"] = ty(E->getType());
      return;
    }
    if (auto *C = dyn_cast<ImplicitCastExpr>(E)) {
      O["k"] = "cast";
      O["implicit"] = true;
      O["ck"] = C->getCastKindName();
      O["type"] = ty(E->getType());
      O["sub"] = expr(C->getSubExpr());
      return;
    }
    if (auto *C = dyn_cast<ExplicitCastExpr>(E)) {
      O["k"] = "cast";
      O["ck"] = C->getCastKindName();
      O["type"] = ty(C->getTypeAsWritten());
      O["sub"] = expr(C->getSubExpr());
      return;
    }
    if (auto *A = dyn_cast<ArraySubscriptExpr>(E)) {
      O["k"] = "subscript";
      O["base"] = expr(A->getBase());
      O["index"] = expr(A->getIdx());
      O["type"] = ty(E->getType());
      return;
    }
    if (auto *T = dyn_cast<CXXThrowExpr>(E)) {
      O["k"] = "throw";
      if (T->getSubExpr()) O["sub"] = expr(T->getSubExpr());
      return;
    }
    if (auto *N = dyn_cast<CXXNewExpr>(E)) {
      O["k"] = "new";
      O["type"] = ty(N->getAllocatedType());
      if (N->getInitializer()) O["init"] = expr(N->getInitializer());
      if (N->isArray() && N->getArraySize() && *N->getArraySize())
        O["size"] = expr(*N->getArraySize());
      return;
    }
    if (auto *D = dyn_cast<CXXDeleteExpr>(E)) {
      O["k"] = "delete";
      O["sub"] = expr(D->getArgument());
      return;
    }
    if (auto *I = dyn_cast<InitListExpr>(E)) {
      O["k"] = "initlist";
      O["type"] = ty(E->getType());
      json::Array A;
      for (auto *X : I->inits()) A.push_back(exprOrNull(X));
      O["args"] = std::move(A);
      return;
    }
    if (auto *I = dyn_cast<CXXStdInitializerListExpr>(E)) {
      O["k"] = "stdinitlist";
      O["sub"] = expr(I->getSubExpr());
      return;
    }
    if (auto *L = dyn_cast<LambdaExpr>(E)) {
      O["k"] = "lambda";
      json::Array Ps;
      if (auto *CO = L->getCallOperator()) {
        for (auto *P : CO->parameters()) {
          json::Object PO;
          PO["name"] = P->getNameAsString();
          PO["type"] = ty(P->getType());
          PO["decl"] = declId(P);
          Ps.push_back(std::move(PO));
        }
      }
      O["params"] = std::move(Ps);
      // captures: by-value captures hold the value the variable had when the lambda was created
      json::Array Cs;
      for (const LambdaCapture &C : L->captures()) {
        if (!C.capturesVariable()) continue;
        json::Object CO2;
        CO2["name"] = C.getCapturedVar()->getNameAsString();
        CO2["decl"] = declId(C.getCapturedVar());
        CO2["by_ref"] = C.getCaptureKind() == LCK_ByRef;
        Cs.push_back(std::move(CO2));
      }
      O["captures"] = std::move(Cs);
      if (L->getBody()) O["body"] = stmt(L->getBody());
      return;
    }
    if (auto *U = dyn_cast<UnaryExprOrTypeTraitExpr>(E)) {
      O["k"] = "sizeof";
      Expr::EvalResult R;
      if (!E->isValueDependent() && E->EvaluateAsRValue(R, Ctx)) O["cval"] = apval(R.Val);
      (void)U;
      return;
    }
    if (auto *OE = dyn_cast<OffsetOfExpr>(E)) {
      // offsetof(T, a.b): the record type and the field path
      O["k"] = "offsetof";
      O["record"] = ty(OE->getTypeSourceInfo()->getType());
      json::Array Path;
      for (unsigned i = 0; i < OE->getNumComponents(); ++i) {
        const OffsetOfNode &N = OE->getComponent(i);
        if (N.getKind() == OffsetOfNode::Field && N.getField()) Path.push_back(N.getField()->getNameAsString());
        else Path.push_back("?");
      }
      O["path"] = std::move(Path);
      Expr::EvalResult R;
      if (!E->isValueDependent() && E->EvaluateAsRValue(R, Ctx)) O["cval"] = apval(R.Val);
      return;
    }
    if (auto *U = dyn_cast<UnresolvedLookupExpr>(E)) {
      O["k"] = "ref";
      O["dk"] = "unresolved";
      O["name"] = U->getName().getAsString();
      json::Array Cands;
      for (auto *D : U->decls()) Cands.push_back(qname(D));
      O["candidates"] = std::move(Cands);
      return;
    }
    if (auto *U = dyn_cast<UnresolvedMemberExpr>(E)) {
      O["k"] = "member";
      if (!U->isImplicitAccess()) O["base"] = expr(U->getBase());
      O["fname"] = U->getMemberName().getAsString();
      O["field"] = "?" + U->getMemberName().getAsString();
      O["unresolved"] = true;
      return;
    }
    if (auto *U = dyn_cast<CXXDependentScopeMemberExpr>(E)) {
      O["k"] = "member";
      if (!U->isImplicitAccess()) O["base"] = expr(U->getBase());
      O["fname"] = U->getMember().getAsString();
      O["field"] = "?" + U->getMember().getAsString();
      O["unresolved"] = true;
      return;
    }
    if (auto *U = dyn_cast<DependentScopeDeclRefExpr>(E)) {
      O["k"] = "ref";
      O["dk"] = "unresolved";
      O["name"] = U->getDeclName().getAsString();
      return;
    }
    // fallback: class name + children
    O["k"] = "other";
    O["class"] = E->getStmtClassName();
    O["type"] = ty(E->getType());
    json::Array A;
    for (const Stmt *Ch : E->children()) {
      if (!Ch) continue;
      if (auto *CE = dyn_cast<Expr>(Ch)) A.push_back(expr(CE));
      else A.push_back(stmt(Ch));
    }
    O["children"] = std::move(A);
  }

  // ---------------------------------------------------------------- stmts
  json::Value varDecl(const VarDecl *V) {
    json::Object D;
    D["decl"] = declId(V);
    D["name"] = V->getNameAsString();
    D["type"] = ty(V->getType());
    D["type_written"] = tyAsWritten(V->getType());
    D["line"] = lineOf(V->getLocation());
    if (V->isStaticLocal()) D["static"] = true;
    if (V->hasInit()) {
      D["init"] = expr(V->getInit());
      D["init_style"] = V->getInitStyle() == VarDecl::CInit ? "c" : (V->getInitStyle() == VarDecl::CallInit ? "call" : "list");
    }
    if (auto *DD = dyn_cast<DecompositionDecl>(V)) {
      json::Array B;
      for (auto *BD : DD->bindings()) {
        json::Object BO;
        BO["name"] = BD->getNameAsString();
        BO["decl"] = declId(BD);
        B.push_back(std::move(BO));
      }
      D["bindings"] = std::move(B);
    }
    return std::move(D);
  }

  json::Value stmtOrNull(const Stmt *S) {
    if (!S) return nullptr;
    return stmt(S);
  }

  json::Value stmt(const Stmt *S) {
    if (auto *E = dyn_cast<Expr>(S)) {
      json::Object O;
      O["k"] = "expr";
      O["e"] = expr(E);
      return std::move(O);
    }
    int Id = NextId++;
    Ids[S] = Id;
    json::Object O;
    O["id"] = Id;
    O["line"] = lineOf(S->getBeginLoc());
    if (auto *C = dyn_cast<CompoundStmt>(S)) {
      O["k"] = "compound";
      json::Array A;
      for (auto *X : C->body()) A.push_back(stmt(X));
      O["stmts"] = std::move(A);
    } else if (auto *D = dyn_cast<DeclStmt>(S)) {
      O["k"] = "decl";
      json::Array A;
      for (auto *X : D->decls()) {
        if (auto *V = dyn_cast<VarDecl>(X)) A.push_back(varDecl(V));
      }
      O["decls"] = std::move(A);
    } else if (auto *I = dyn_cast<IfStmt>(S)) {
      O["k"] = "if";
      if (I->isConstexpr()) O["constexpr"] = true;
      if (I->getInit()) O["init"] = stmt(I->getInit());
      if (I->getConditionVariableDeclStmt()) O["condvar"] = stmt(I->getConditionVariableDeclStmt());
      O["cond"] = exprOrNull(I->getCond());
      O["then"] = stmtOrNull(I->getThen());
      O["else"] = stmtOrNull(I->getElse());
    } else if (auto *F = dyn_cast<ForStmt>(S)) {
      O["k"] = "for";
      O["init"] = stmtOrNull(F->getInit());
      O["cond"] = exprOrNull(F->getCond());
      O["inc"] = exprOrNull(F->getInc());
      O["body"] = stmtOrNull(F->getBody());
    } else if (auto *W = dyn_cast<WhileStmt>(S)) {
      O["k"] = "while";
      O["cond"] = exprOrNull(W->getCond());
      O["body"] = stmtOrNull(W->getBody());
    } else if (auto *W = dyn_cast<DoStmt>(S)) {
      O["k"] = "do";
      O["body"] = stmtOrNull(W->getBody());
      O["cond"] = exprOrNull(W->getCond());
    } else if (auto *R = dyn_cast<CXXForRangeStmt>(S)) {
      O["k"] = "rangefor";
      if (R->getInit()) O["init"] = stmt(R->getInit());
      O["var"] = varDeclNoInit(R->getLoopVariable());
      O["range"] = exprOrNull(R->getRangeInit());
      json::Object DS;
      DS["range"] = stmtOrNull(R->getRangeStmt());
      DS["begin"] = stmtOrNull(R->getBeginStmt());
      DS["end"] = stmtOrNull(R->getEndStmt());
      DS["cond"] = exprOrNull(R->getCond());
      DS["inc"] = exprOrNull(R->getInc());
      DS["loopvar"] = stmtOrNull(R->getLoopVarStmt());
      O["desugar"] = std::move(DS);
      O["body"] = stmtOrNull(R->getBody());
    } else if (auto *Sw = dyn_cast<SwitchStmt>(S)) {
      O["k"] = "switch";
      if (Sw->getInit()) O["init"] = stmt(Sw->getInit());
      O["cond"] = exprOrNull(Sw->getCond());
      O["body"] = stmtOrNull(Sw->getBody());
    } else if (auto *C = dyn_cast<CaseStmt>(S)) {
      O["k"] = "case";
      O["value"] = exprOrNull(C->getLHS());
      caseValue(C, O);
      O["sub"] = stmtOrNull(C->getSubStmt());
    } else if (auto *D = dyn_cast<DefaultStmt>(S)) {
      O["k"] = "default";
      O["sub"] = stmtOrNull(D->getSubStmt());
    } else if (auto *R = dyn_cast<ReturnStmt>(S)) {
      O["k"] = "return";
      O["value"] = exprOrNull(R->getRetValue());
    } else if (isa<BreakStmt>(S)) {
      O["k"] = "break";
    } else if (isa<ContinueStmt>(S)) {
      O["k"] = "continue";
    } else if (isa<NullStmt>(S)) {
      O["k"] = "null";
    } else if (auto *T = dyn_cast<CXXTryStmt>(S)) {
      O["k"] = "try";
      O["block"] = stmt(T->getTryBlock());
      json::Array H;
      for (unsigned I = 0; I < T->getNumHandlers(); ++I) {
        const CXXCatchStmt *C = T->getHandler(I);
        json::Object CO;
        int Cid = NextId++;
        Ids[C] = Cid;
        CO["id"] = Cid;
        CO["k"] = "catch";
        CO["line"] = lineOf(C->getBeginLoc());
        if (C->getExceptionDecl()) {
          CO["type"] = ty(C->getCaughtType());
          CO["decl"] = declId(C->getExceptionDecl());
          CO["name"] = C->getExceptionDecl()->getNameAsString();
        } else {
          CO["type"] = "...";
        }
        CO["body"] = stmt(C->getHandlerBlock());
        H.push_back(std::move(CO));
      }
      O["handlers"] = std::move(H);
    } else if (auto *L = dyn_cast<LabelStmt>(S)) {
      O["k"] = "label";
      O["name"] = L->getName();
      O["sub"] = stmtOrNull(L->getSubStmt());
    } else if (auto *G = dyn_cast<GotoStmt>(S)) {
      O["k"] = "goto";
      O["name"] = G->getLabel()->getNameAsString();
    } else if (auto *At = dyn_cast<AttributedStmt>(S)) {
      O["k"] = "attributed";
      O["sub"] = stmtOrNull(At->getSubStmt());
    } else {
      O["k"] = "otherstmt";
      O["class"] = S->getStmtClassName();
      json::Array A;
      for (const Stmt *Ch : S->children())
        if (Ch) A.push_back(stmt(Ch));
      O["children"] = std::move(A);
    }
    return std::move(O);
  }

  json::Value varDeclNoInit(const VarDecl *V) {
    json::Object D;
    if (!V) return nullptr;
    D["decl"] = declId(V);
    D["name"] = V->getNameAsString();
    D["type"] = ty(V->getType());
    D["line"] = lineOf(V->getLocation());
    return std::move(D);
  }

  void caseValue(const CaseStmt *C, json::Object &O) {
    const Expr *L = C->getLHS();
    if (!L || L->isValueDependent()) return;
    Expr::EvalResult R;
    if (L->EvaluateAsInt(R, Ctx)) O["ivalue"] = (int64_t)R.Val.getInt().getExtValue();
    if (auto *DR = dyn_cast<DeclRefExpr>(L->IgnoreParenImpCasts()))
      if (auto *EC = dyn_cast<EnumConstantDecl>(DR->getDecl())) O["enumerator"] = qname(EC);
  }

  // ------------------------------------------------------------------ CFG
  json::Value cfg(const FunctionDecl *FD) {
    CFG::BuildOptions BO;
    BO.setAllAlwaysAdd();
    BO.AddImplicitDtors = true;
    BO.AddEHEdges = false;
    BO.AddInitializers = true;
    BO.PruneTriviallyFalseEdges = false;
    std::unique_ptr<CFG> G = CFG::buildCFG(FD, FD->getBody(), &Ctx, BO);
    if (!G) return nullptr;
    json::Object O;
    O["entry"] = (int64_t)G->getEntry().getBlockID();
    O["exit"] = (int64_t)G->getExit().getBlockID();
    json::Object Blocks;
    for (const CFGBlock *B : *G) {
      json::Object BOj;
      json::Array Elems;
      for (const CFGElement &El : *B) {
        if (auto S = El.getAs<CFGStmt>()) {
          const Stmt *St = S->getStmt();
          auto It = Ids.find(St);
          if (It != Ids.end()) Elems.push_back(It->second);
          else {
            // statement not reached by the body walk (should be rare): emit inline
            json::Object X;
            X["inline"] = stmt(St);
            Elems.push_back(std::move(X));
          }
        } else if (auto D = El.getAs<CFGAutomaticObjDtor>()) {
          json::Object X;
          X["dtor"] = D->getVarDecl()->getNameAsString();
          X["decl"] = declId(D->getVarDecl());
          X["type"] = ty(D->getVarDecl()->getType());
          Elems.push_back(std::move(X));
        } else if (auto I = El.getAs<CFGInitializer>()) {
          json::Object X;
          const CXXCtorInitializer *CI = I->getInitializer();
          if (CI->isAnyMemberInitializer()) X["init_field"] = qname(CI->getAnyMember());
          else X["init_base"] = true;
          auto It = Ids.find(CI->getInit());
          if (It != Ids.end()) X["e"] = It->second;
          Elems.push_back(std::move(X));
        } else if (El.getAs<CFGTemporaryDtor>()) {
          // ignored
        } else if (El.getAs<CFGBaseDtor>() || El.getAs<CFGMemberDtor>() || El.getAs<CFGDeleteDtor>()) {
          // ignored
        }
      }
      BOj["elems"] = std::move(Elems);
      if (const Stmt *T = B->getTerminatorStmt()) {
        json::Object TO;
        TO["class"] = T->getStmtClassName();
        if (auto *BOp = dyn_cast<BinaryOperator>(T)) TO["op"] = BOp->getOpcodeStr().str();
        auto It = Ids.find(T);
        if (It != Ids.end()) TO["stmt"] = It->second;
        if (const Stmt *C = B->getTerminatorCondition(false)) {
          auto It2 = Ids.find(C);
          if (It2 != Ids.end()) TO["cond"] = It2->second;
        }
        TO["line"] = lineOf(T->getBeginLoc());
        BOj["term"] = std::move(TO);
      }
      if (const Stmt *L = B->getLabel()) {
        json::Object LO;
        if (auto *C = dyn_cast<CaseStmt>(L)) {
          LO["k"] = "case";
          caseValue(C, LO);
        } else if (isa<DefaultStmt>(L)) {
          LO["k"] = "default";
        } else if (auto *Lb = dyn_cast<LabelStmt>(L)) {
          LO["k"] = "label";
          LO["name"] = Lb->getName();
        } else if (isa<CXXCatchStmt>(L)) {
          LO["k"] = "catch";
          auto It = Ids.find(L);
          if (It != Ids.end()) LO["stmt"] = It->second;
        } else {
          LO["k"] = L->getStmtClassName();
        }
        BOj["label"] = std::move(LO);
      }
      json::Array Succs;
      for (auto SI = B->succ_begin(); SI != B->succ_end(); ++SI) {
        json::Object SO;
        if (const CFGBlock *R = SI->getReachableBlock()) {
          SO["to"] = (int64_t)R->getBlockID();
        } else if (const CFGBlock *U = SI->getPossiblyUnreachableBlock()) {
          SO["to"] = (int64_t)U->getBlockID();
          SO["unreachable"] = true;
        } else {
          SO["to"] = nullptr;
        }
        Succs.push_back(std::move(SO));
      }
      BOj["succs"] = std::move(Succs);
      if (B->hasNoReturnElement()) BOj["noreturn"] = true;
      Blocks[std::to_string(B->getBlockID())] = std::move(BOj);
    }
    O["blocks"] = std::move(Blocks);
    return std::move(O);
  }

  // ------------------------------------------------------------ functions
  json::Value function(const FunctionDecl *FD) {
    Ids.clear();
    json::Object O;
    O["qname"] = qname(FD);
    {
      std::string S;
      llvm::raw_string_ostream OS(S);
      FD->getNameForDiagnostic(OS, PP, true);
      O["qname_targs"] = OS.str();
    }
    O["file"] = fileOf(FD->getLocation());
    O["line"] = lineOf(FD->getBeginLoc());
    O["end_line"] = lineOf(FD->getEndLoc());
    O["ret"] = ty(FD->getReturnType());
    O["sig"] = ty(FD->getType());
    const char *TK = "none";
    if (FD->isDependentContext()) TK = "pattern";
    else if (FD->isTemplateInstantiation()) TK = "instantiation";
    else if (auto *M = dyn_cast<CXXMethodDecl>(FD)) {
      if (auto *SP = dyn_cast<ClassTemplateSpecializationDecl>(M->getParent())) {
        (void)SP;
        TK = "instantiation";
      }
    }
    O["template"] = TK;
    if (!FD->isExternallyVisible()) O["internal"] = true;
    json::Array Ps;
    for (auto *P : FD->parameters()) {
      json::Object PO;
      PO["name"] = P->getNameAsString();
      PO["type"] = ty(P->getType());
      PO["decl"] = declId(P);
      Ps.push_back(std::move(PO));
    }
    O["params"] = std::move(Ps);
    if (auto *M = dyn_cast<CXXMethodDecl>(FD)) {
      O["class"] = qname(M->getParent());
      if (M->isVirtual()) O["virtual"] = true;
      if (M->isConst()) O["const"] = true;
      if (M->isStatic()) O["static"] = true;
      json::Array Ov;
      for (auto *OM : M->overridden_methods()) Ov.push_back(qname(OM));
      O["overrides"] = std::move(Ov);
      if (auto *CD = dyn_cast<CXXConstructorDecl>(M)) {
        json::Array Inits;
        for (auto *CI : CD->inits()) {
          if (!CI->isWritten() && !CI->isInClassMemberInitializer()) continue;
          json::Object IO;
          if (CI->isAnyMemberInitializer()) IO["field"] = qname(CI->getAnyMember());
          else if (CI->isBaseInitializer()) IO["base"] = ty(QualType(CI->getBaseClass(), 0));
          IO["init"] = exprOrNull(CI->getInit());
          Inits.push_back(std::move(IO));
        }
        O["ctor_inits"] = std::move(Inits);
      }
    }
    O["body"] = stmt(FD->getBody());
    if (!NoCfg && !FD->isDependentContext()) O["cfg"] = cfg(FD);
    return std::move(O);
  }
};

class Visitor : public RecursiveASTVisitor<Visitor> {
 public:
  Visitor(ASTContext &C, json::Object &Out)
      : Ctx(C), Ex(C), Out(Out), NameRx(Names.empty() ? ".*" : Names.getValue()) {}
  bool shouldVisitTemplateInstantiations() const { return true; }
  bool shouldVisitImplicitCode() const { return false; }

  bool inRoot(SourceLocation L) {
    std::string F = Ex.fileOf(L);
    return !F.empty() && llvm::StringRef(F).startswith(Root);
  }

  bool VisitFunctionDecl(FunctionDecl *FD) {
    if (!FD->doesThisDeclarationHaveABody() || !FD->isThisDeclarationADefinition()) return true;
    if (FD->isImplicit() || FD->isDefaulted() || FD->isDeleted()) return true;
    if (!FD->getBody()) return true;
    if (!inRoot(FD->getLocation())) return true;
    if (auto *M = dyn_cast<CXXMethodDecl>(FD))
      if (M->getParent()->isLambda()) return true;
    std::string Q = Exporter::qname(FD);
    if (!Names.empty() && !NameRx.match(Q)) return true;
    if (!Seen.insert(FD).second) return true;
    Functions.push_back(Ex.function(FD));
    return true;
  }

  bool VisitCXXRecordDecl(CXXRecordDecl *RD) {
    if (!RD->isThisDeclarationADefinition() || RD->isLambda() || RD->isImplicit()) return true;
    if (!inRoot(RD->getLocation())) return true;
    if (!SeenRec.insert(RD).second) return true;
    json::Object O;
    O["qname"] = Exporter::qname(RD);
    O["file"] = Ex.fileOf(RD->getLocation());
    O["line"] = Ex.lineOf(RD->getLocation());
    if (RD->isDependentContext()) O["template"] = "pattern";
    else if (isa<ClassTemplateSpecializationDecl>(RD)) O["template"] = "instantiation";
    if (isa<ClassTemplateSpecializationDecl>(RD)) O["type"] = Ex.ty(Ctx.getRecordType(RD));
    json::Array Bases;
    for (auto &B : RD->bases()) Bases.push_back(Ex.ty(B.getType()));
    O["bases"] = std::move(Bases);
    json::Array Fields;
    for (auto *F : RD->fields()) {
      json::Object FO;
      FO["name"] = F->getNameAsString();
      FO["qname"] = Exporter::qname(F);
      FO["type"] = Ex.ty(F->getType());
      FO["type_written"] = Ex.tyAsWritten(F->getType());
      if (F->hasInClassInitializer() && F->getInClassInitializer()) {
        Ex.Ids.clear();
        FO["init"] = Ex.expr(F->getInClassInitializer());
      }
      Fields.push_back(std::move(FO));
    }
    O["fields"] = std::move(Fields);
    json::Array Methods;
    for (auto *M : RD->methods()) {
      if (M->isImplicit()) continue;
      json::Object MO;
      MO["name"] = M->getNameAsString();
      MO["qname"] = Exporter::qname(M);
      MO["sig"] = Ex.ty(M->getType());
      if (M->isVirtual()) MO["virtual"] = true;
      if (M->isPure()) MO["pure"] = true;
      if (M->isConst()) MO["const"] = true;
      if (M->isStatic()) MO["static"] = true;
      MO["access"] = (int)M->getAccess();
      json::Array Ov;
      for (auto *OM : M->overridden_methods()) Ov.push_back(Exporter::qname(OM));
      MO["overrides"] = std::move(Ov);
      Methods.push_back(std::move(MO));
    }
    O["methods"] = std::move(Methods);
    Records.push_back(std::move(O));
    return true;
  }

  bool VisitEnumDecl(EnumDecl *ED) {
    if (!ED->isThisDeclarationADefinition()) return true;
    if (!inRoot(ED->getLocation())) return true;
    if (!SeenEnum.insert(ED).second) return true;
    json::Object O;
    O["qname"] = Exporter::qname(ED);
    O["file"] = Ex.fileOf(ED->getLocation());
    json::Array A;
    for (auto *EC : ED->enumerators()) {
      json::Array P;
      P.push_back(EC->getNameAsString());
      P.push_back((int64_t)EC->getInitVal().getExtValue());
      A.push_back(std::move(P));
    }
    O["enumerators"] = std::move(A);
    Enums.push_back(std::move(O));
    return true;
  }

  bool VisitVarDecl(VarDecl *V) {
    if (isa<ParmVarDecl>(V)) return true;
    if (V->isLocalVarDecl() && !V->isStaticLocal()) return true;
    if (!V->hasInit() || V->getInit()->isValueDependent() || V->getType()->isDependentType()) return true;
    if (!inRoot(V->getLocation())) return true;
    if (!SeenVar.insert(V->getCanonicalDecl()).second) return true;
    json::Object O;
    O["qname"] = Exporter::qname(V);
    O["type"] = Ex.ty(V->getType());
    O["file"] = Ex.fileOf(V->getLocation());
    O["line"] = Ex.lineOf(V->getLocation());
    O["const"] = V->getType().isConstQualified();
    if (V->isStaticLocal()) O["static_local"] = true;
    Expr::EvalResult R;
    if (V->getType()->isArithmeticType() || V->getType()->isEnumeralType()) {
      if (V->getInit()->EvaluateAsRValue(R, Ctx) && !R.HasSideEffects) O["value"] = Ex.apval(R.Val);
    }
    Ex.Ids.clear();
    O["init"] = Ex.expr(V->getInit());
    Consts.push_back(std::move(O));
    return true;
  }

  void finish() {
    Out["functions"] = std::move(Functions);
    Out["records"] = std::move(Records);
    Out["enums"] = std::move(Enums);
    Out["globals"] = std::move(Consts);
  }

 private:
  ASTContext &Ctx;
  Exporter Ex;
  json::Object &Out;
  llvm::Regex NameRx;
  json::Array Functions, Records, Enums, Consts;
  std::set<const Decl *> Seen, SeenRec, SeenEnum, SeenVar;
};

class Consumer : public ASTConsumer {
 public:
  explicit Consumer(std::string In) : InFile(std::move(In)) {}
  void HandleTranslationUnit(ASTContext &Ctx) override {
    json::Object Out;
    Out["unit"] = InFile;
    Out["errors"] = (int64_t)Ctx.getDiagnostics().getClient()->getNumErrors();
    Visitor V(Ctx, Out);
    V.TraverseDecl(Ctx.getTranslationUnitDecl());
    V.finish();
    std::error_code EC;
    llvm::raw_fd_ostream OS(OutFile.empty() ? "-" : OutFile.getValue(), EC);
    OS << json::Value(std::move(Out));
    OS << "\n";
  }
  std::string InFile;
};

class Action : public ASTFrontendAction {
 public:
  std::unique_ptr<ASTConsumer> CreateASTConsumer(CompilerInstance &, llvm::StringRef In) override {
    return std::make_unique<Consumer>(In.str());
  }
};

}  // namespace

int main(int argc, const char **argv) {
  auto Opt = tooling::CommonOptionsParser::create(argc, argv, Cat);
  if (!Opt) {
    llvm::errs() << llvm::toString(Opt.takeError()) << "\n";
    return 2;
  }
  tooling::ClangTool Tool(Opt->getCompilations(), Opt->getSourcePathList());
  int R = Tool.run(tooling::newFrontendActionFactory<Action>().get());
  return R ? 2 : 0;
}
