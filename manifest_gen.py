#!/usr/bin/env python3
"""regenerates MANIFEST.json from the table below (keeps it schema-valid); run after adding a rule module"""
import json, os
HERE = os.path.dirname(os.path.abspath(__file__))
ids = [json.loads(l)["id"] for l in open(os.path.join(HERE, "properties.jsonl"))]

CHECKS = {
 "C20": dict(cat="proof", ref="DESIGN.md section 4 C20",
   technique="constant tables read by folding each UnitConverter table function with its parameter bound to every enumerator (switch or if-chains, temporaries, helper methods; convert() calls resolved through the tables) and the clang-evaluated conv:: constants, compared exactly with embedded CODATA/IUPAC tables; unit-factor dataflow through the LAMMPS dump reader (each length conversion applied exactly once); element maps as data",
   text="Every conversion table entry, conv:: constant and element-table entry of the current source is extracted and "
        "compared exactly: table completeness and positivity, convert()==value(to)/value(from) (so inverse and "
        "transitivity hold identically for all 42 units), derived units == quotient of base conversions, 4-significant-"
        "digit agreement with CODATA/SI and across the two encodings, element tables self-consistent. The space is "
        "finite and enumerated completely, hence proof-level for the stated clauses.",
   note="Trusted: clang constant evaluator, the embedded CODATA-2018/IUPAC reference tables. Not decided: uses of the "
        "constants at call sites other than through these tables (covered for the trajectory formats by C08)."),
 "C13": dict(cat="proof", ref="DESIGN.md section 4 C13",
   technique="interval abstract interpretation with a symbolic bin count over the clang CFG (widening/narrowing, branch refinement, call summaries for file-local helpers) + symbolic folding of the accumulation store and its path condition, decided for one representative of every ordering of the raw bin index against 0 and N (in range / below / above, periodic and not) + congruence modulo N of the wrapped index + element-wise fold of the legacy normalisation",
   text="Every subscript of the bin arrays in HistogramNew::Process and Histogram::ProcessData is proved to lie in [0,N-1] "
        "on every CFG path for every N (symbolic), for every input value (float->index casts are unconstrained); the "
        "bin-index, step and normalisation expressions are compared in canonical form with the property's formulas; "
        "extremum seeds and the leave-before-write shape of the non-periodic branch are checked. Memory safety of the "
        "bins and the formulas are decided for all inputs; hence proof-level for those clauses.",
   note="Trusted: clang CFG, the interval domain (k*N+c bounds, N>=1; legacy class N>=2). Not decided: floating-point "
        "rounding at exact bin edges, weight conservation as a numeric sum (follows from one write per accepted value), "
        "callers' choice of ranges (csg_density, tabulatedpotential)."),
 "C02": dict(cat="translation_validation", ref="DESIGN.md section 4 C02",
   technique="value numbering / canonical-form comparison of the three BCShortestConnection kernels (and volume/height kernels) against the closed-form minimum-image formulas; AST decision-table and override-set checks",
   text="The code of every BCShortestConnection override is folded into an expression over r_i, r_j, box elements and an "
        "uninterpreted round atom and compared, as a rational-function identity, with the property's formula (open: "
        "difference; orthorhombic: d-L*round(d/L); triclinic: sequential z,y,x reduction each stage consuming the "
        "previous). Holding for the formula means holding for all points and boxes; integer-combination, antisymmetry "
        "and shift-invariance follow from the formula. Box volume/height kernels, the box-type decision table and the "
        "forwarding functions are checked the same way.",
   note="Programs = kernels validated. Trusted: clang front end, sympy polynomial arithmetic. Not decided: floating-point "
        "ties at exactly half a box; the geometric theorem that the sequential reduction is shortest for reduced "
        "triclinic boxes (a property of the formula, not of the code)."),
 "C05": dict(cat="other", ref="DESIGN.md section 4 C05",
   technique="symbolic folding of ProcessData and Worker::Run (file-local helpers inlined) into the ordered sequence of lock operations, reader calls, bookkeeping stores and returns with their path conditions; the protocol is decided on the operation sequence of each of the 64 assignments of the six boolean facts the conditions mention; lockset/typestate dataflow over the clang CFG for 'shared counters only under the reader mutex' and for start-up/join ordering in Run; who-may-call and worker-effect (writes through the shared application pointer) analyses over resolved callees and fields",
   text="Decides the structural core of the protocol for every interleaving: the shared reader and frame counters are only "
        "touched inside one critical section of the reader mutex; every exit of ProcessData releases it; in ordered mode each "
        "worker awaits In[id], reads, and passes In[(id+1)%n] exactly once on every path (likewise Out around MergeWorker); in "
        "unordered mode no ring mutex is touched and merging happens after join under a mutex; rings are created and locked "
        "before any thread starts; no application code reaches the shared reader or the protocol's members. These are "
        "necessary conditions of frame-exactly-once/in-order/no-deadlock; breaking any of them breaks the property for some schedule."
        + 'Also: exactly the workers 0..nthreads_-1 are created, so the modulus of the hand-over rings equals the number of workers and ring mutexes; the frame budget counts the first frame of interest held by worker 0, so that in unordered mode the processed frames are the first K frames of interest under every schedule (a genuine defect here was repaired: fix 05eb3cbcb); in ordered mode whatever MergeWorker adds from a worker is reset between two merges of that worker (repaired in the threaded template: fix 183aadea9). ',
   note="Not decided: byte-identical output across thread counts, what a subclass' MergeWorker/EvalConfiguration computes "
        "exception paths (EH edges off), fairness. Deadlock freedom is "
        "argued from the verified token protocol, not model-checked."),
 "C01": dict(cat="proof", ref="DESIGN.md section 4 C01",
   technique="def-use folding of BeadMap::Apply into canonical sum/guard terms with intercepted BCShortestConnection calls (dataflow identity), element-wise folding of Map_Sphere::Initialize (what AddElem receives for a generic sub-bead, helpers inlined), CFG must-pass-through for the half-box guard, ordering/dominance for box propagation, definition tables of cgmoleculedef",
   text="For every BeadMap::Apply override the value reaching setPos/setVel/setF/setMass is shown to be exactly the "
        "weighted sum of the property (positions only through BC(r0,pos)+r0 with r0 the first parent, velocity with weight_, "
        "force with force_weight_=d/w), for every frame and box because it is an identity of the folded dataflow; the "
        "half-box comparison guards every CFG path to setPos except for open boxes; the frame's box is installed before any "
        "map runs; Initialize normalises w and d, stores d_i/w_i and throws on the stated inconsistencies."
        + 'Also: inside the loop over the listed atoms Map_Sphere::Initialize only rejects (throws), never skips, so every listed atom enters the mass sum, the periodic-image reference and the half-box test. ',
   note="Obligations are structural/algebraic identities of the current source; holding implies the invariance clauses "
        "(whole-box-vector displacement of non-first parents, rigid translation) given C02. Not decided: floating-point "
        "rounding, the parts of CG topology creation outside the definition tables of R1.6, csg_map's format pairs (C08)."),
 "C07": dict(cat="proof", ref="DESIGN.md section 4 C07",
   technique="symbolic folding of value and derivative code from the AST + formal differentiation (chain rule, norm atoms with N^2=v.v) + exact polynomial identity decision (coefficient-wise at random rational points, and full symbolic expansion where it terminates)",
   text="For bond, angle and dihedral the formal gradient of the folded EvaluateVar equals the folded Grad for every bead and "
        "component and the gradients sum to zero; for LJ12-6, LJ+Gaussian and the cubic B-spline potential dF/dlam_i = DF(i) and "
        "dDF(i)/dlam_j = D2F(i,j) for every parameter (pair), with the same domain guard; for cubic, Akima and linear splines "
        "d/dr Calculate = CalculateDerivative. These are identities between formulas of the current source, hence hold for every "
        "configuration/parameter vector away from the stated singular geometries.",
   note="Obligations are discharged by exact arithmetic: bond/angle/potentials/splines by full symbolic expansion; the dihedral (quick "
        "tier) by coefficient-wise identity at 4 random rational geometries (Schwartz-Zippel, error probability < 1e-10), in the thorough "
        "tier additionally by symbolic expansion under a time budget. Trusted: clang front end, sympy polynomial arithmetic. Not "
        "decided: singular geometries, getInterval at knots, floating-point error of the compiled code."),
 "C12": dict(cat="proof", ref="DESIGN.md section 4 C12",
   technique="symbolic folding of spline coefficient code + exact polynomial identities (interpolation, C1 rows reconstructed from the matrix/right-hand-side stores by their folded indices, curvature, boundary rows per boundary kind, Akima piece conditions, linear-fit rows: partition of unity and linear precision), AST/CFG checks of grid pinning, smoothing stencil, resample plumbing",
   text="Decides the closed-form clauses for every grid and data set: linear pieces pass through both knots; cubic basis "
        "functions interpolate, f2 is the curvature, the one-sided slope coefficients are the derivatives from the left/right "
        "interval and the rows built in Interpolate/AddBCToFitMatrix are exactly the C1 conditions (so the first derivative is "
        "continuous on any non-uniform grid); natural/periodic boundary rows; Akima pieces match values and slopes; grids end at max; "
        "smoothing keeps end points and straight lines; csg_resample derives value and derivative from one spline on the same grid."
        + "Also: csg_resample's search for the input point matching an output point treats abscissae that agree up to rounding as the same point, also at x = 0 (representatives), and neighbouring grid points as different. The Table writer's number format keeps significant digits (shared with C08). ",
   note="Not decided: least-squares optimality of Fit, numerical conditioning of the QR solves, behaviour on data. Trusted: clang "
        "front end, sympy polynomial arithmetic."),
 "C08": dict(cat="other", ref="DESIGN.md section 4 C08",
   technique="writer/reader field-table extraction from folded fprintf / ostream<< / boost::format arguments and reader sinks (quantity, component, box element, constant factor with clang-evaluated unit constants), dominance check that atom-count mismatches reach a throw expression, registry and storage-order type facts",
   text="For gro, LAMMPS dump, DLPOLY, xyz and pdb the items a writer emits and the fields a reader stores are extracted "
        "symbolically and must agree: same quantity and component per column/offset, box elements mapped to the same matrix "
        "entries (all nine on every path for gro, cell vectors as columns for DLPOLY), unit factors multiplying to one. "
        "Every reader's atom-count comparison must reach a real throw. Table columns/flag token, IMC matrix layout (row-major "
        "type fact) and the index-file grammar are paired the same way; every writable extension has a reader; DL_POLY real fields that are separated by their width only are at least precision + 7 wide. "
        + 'Also: the Table writer prints significant digits (no fixed notation, precision >= 6), so small ordinates survive the round trip. ',
   note="Necessary structural conditions of the round trip, decided for all configurations because they are facts about the "
        "code's field tables. Not decided: printed precision versus tolerance, bead names/types, multi-frame ordering, xml "
        "topology reader. Known findings (listed, exit 0): Table error column not restored; PDB writer emits no CRYST1."),
 "C03": dict(cat="other", ref="DESIGN.md section 4 C03",
   technique="CFG required-edge / dominance analysis of the four search kernels with predicate splitting on do_exclusions_ (file-local wrappers of the exclusion test recognised by their folded truth table), def-use resolution of the compared distances to BCShortestConnection calls, interval analysis of the cell index with symbolic cell counts (helper summaries) + congruence of the folded cell index to floor(r.norm) modulo the cell count, folded start value of the inner iterator of the simple search",
   text="Necessary conditions decided for all configurations: in every kernel an insertion is reachable only through cutoff-true, "
        "exclusion-false (when enabled), callback-true and not-yet-stored edges, in that dominance order and on the same beads; "
        "each tested distance is the minimum-image distance of two distinct beads of the tuple (strict <) and the stored vectors "
        "are those vectors in creator order; grid searches test a bead before inserting it; self tuples are skipped; cells per "
        "direction come from the box heights, neighbour offsets shrink correctly for small grids, pair and 3-body grid agree; "
        "every cell index is proved within [0,N-1]. "
        + 'Also: ExclusionList::IsExcluded answers by membership in the whole partner list of the bead with the smaller id (std::find or a scan without early exit that misses later partners). ',
   note="Not decided (needs execution/geometry): completeness of the cell scan for all cell counts and triclinic shapes, "
        "exactly-once delivery across cells, construction of exclusions from bonded interactions."),
 "C04": dict(cat="proof", ref="DESIGN.md section 4 C04",
   technique="symbolic folding of the merge / normalisation / covariance code (matrix expressions as non-commutative terms, helpers inlined, reference parameters written back) and exact comparison with the property's formulas; accumulator-reset completeness (sibling set inclusion); block output decided by a truth table over (block length zero, block complete); per-frame clearing by dominance",
   text="Decides for every trajectory: frame averages are ((n-1)avg+cur)/n with the incremented frame count (distributions, forces, "
        "correlation blocks, box volume); the two-body output is V norm n(r)/(4/3 pi (x2^3-x1^3)) with the exact shell volume and "
        "CalcDeltaS applies its exact inverse to the target; bonded/three-body outputs are normalised to unit integral; the IMC block is "
        "-(<SiSj>-<Si><Sj>^T) mirrored by transpose; every accumulator updated while merging is reset by ClearAverages; block output "
        "writes before clearing; per-frame histograms are cleared before filling; values go to the nearest bin centre."
        + 'Also: every per-block accumulator update of MergeWorker (frame count, average volume, means, correlations) precedes the block output and its ClearAverages; the pair-count factor is 1/(N1 N2) for two bead types and 2/(N1 N2) for one; the bonded values that are binned (IBond/IAngle/IDihedral::EvaluateVar) equal the geometric bond length, angle and dihedral at random rational geometries. ',
   note="Identities of formulas in the current source. Not decided: agreement with an independent recomputation on data, the pair "
        "search (C03), bin memory safety (C13)."),
 "C06": dict(cat="other", ref="DESIGN.md section 4 C06",
   technique="symbolic folding of csg_imc_solve into a non-commutative matrix term (-V diag(d) V^T A^T b with V, d from the eigen-decomposition of A^T A) with the diagonal decided element-wise for representatives of |lambda+reg| against the tolerance; canonical-form comparison of all csg_fmatch row/index expressions, call-sequence checks at block boundaries, structural check of the constrained QR solve, cubic-spline row identities shared with C12",
   text="Decides the shape of the stated problems: csg_imc_solve forms A^T A, inverts its spectrum shifted by the regularisation "
        "(pseudo-inverse below tolerance), assembles V diag V^T and returns -inverse A^T b, split by 1-based index ranges; the matrix "
        "file is read back with the layout it was written; every csg_fmatch contribution lands in the row of its own force "
        "component/atom/frame with Newton-3 signs and b_ uses the same rows; both least-squares variants clear their accumulators per "
        "block; the constrained solve works in the null space of the constraints (head of Q^T x forced to zero) so constraints hold "
        "exactly; the spline constraint rows are the C1 conditions."
        + 'Also (shared with C07): the bond, angle and dihedral gradients that fill the bonded rows of the force-matching matrix equal the derivative of EvaluateVar and sum to zero. ',
   note="Necessary structural conditions; holding does not establish numerical accuracy or that fmatch reproduces representable force "
        "functions on data (needs execution). Trusted: Eigen decompositions."),
 "C18": dict(cat="other", ref="DESIGN.md section 4 C18",
   technique="symbolic folding of RangeParser::ParseBlock and iterator::operator++ (same-class methods and file-local helpers inlined, C++ integer division modelled) decided on representative token triples / iterator states for every ordering that matters (sign of the stride, begin*stride vs end*stride, zero stride, token counts); printer-vs-parser grammar tables from folded stream items; std::set normalisation and wildcmp restart rules on AST/CFG",
   text="Decides: every range block that ParseBlock stores has a non-zero stride and satisfies begin*stride <= end*stride, and the iterator "
        "leaves a block by exactly the complementary sign-aware test (so every accepted expression terminates and descending ranges are "
        "enumerated); the printer's forms b, b:e, b:s:e and the ',' separator are what the parser's token roles read back; index "
        "vectors/strings are normalised through an ordered set in both directions with inclusive ranges; bead selection uses "
        "wildcmp(pattern, name|type) according to the 'name:' prefix. "
        + 'Also: the std::string overload of wildcmp only delegates to the character matcher (length shortcuts decided over star/non-star counts); RangeParser iterator equality is (same block and same current value) and != its negation, so a range containing the end marker value -1 is enumerated completely. ',
   note="Not decided: that tools::wildcmp implements glob semantics for all pattern/string pairs (a back-tracking matcher; would need "
        "exhaustive comparison with a reference matcher - not static analysis), std::stoi's rejection of malformed numbers."),
 "C11": dict(cat="other", ref="DESIGN.md section 4 C11",
   technique="dominance/must-pass-through over the pipeline's CFG, guards of CheckRequired / RemoveOptional / InjectDefaultsAsValues as truth tables over (has default, injected, keyword, has children) on the folded code, data lint of all shipped option XML files against type heads and choice syntax extracted from the validator's code, taint rule (values reach the XML stream only escaped), unconditional-append rule for the expat character-data callback",
   text="Decides: ProcessUserInput runs all seven stages once on every path in the required order on one tree; undeclared options, "
        "missing REQUIRED options and OPTIONAL leftovers are handled by guards that use the reserved keywords consistently; extra list "
        "elements are copies of the pristine default element (no leakage between list entries); every one of the shipped option "
        "descriptions resolves its links, has well-formed choices, defaults that satisfy their own choices and distinct list tags; "
        "XML output escapes values and attributes so that written trees load back; bool accepts exactly the documented literals."
        + 'Also: a multi-selection value is valid exactly when every word is a declared choice (the word loop or all_of term run abstractly on two words); float+/int+ reject negative values, decided on the folded result; every linked sub-package file is loaded into a Property object of its own. ',
   note="Not decided: the complete merge semantics on arbitrary user trees, expat's behaviour, numeric lexical_cast details. The lint "
        "covers xtp/share/xtp/xml and its sub-packages (csg_defaults.xml.in is a template without choices attributes)."),
 "C10": dict(cat="other", ref="DESIGN.md section 4 C10",
   technique="lock-counter dataflow over the CFGs of the ProgObserver<std::vector<Job>> instantiation (thread mutex, file-lock bracket with wrapper bodies resolved to boost file_lock::lock/unlock, lock on the owned descriptor), dominance checks for backup-before-rewrite, who-may-call; the merge rule of UPDATE_JOBS and the assignment loop of SyncWithProgFile as decision tables over every condition on the folded path (exits included)",
   text="Decides the protocol shape for every schedule and process count: observer state is only touched under lockThread_ and the "
        "mutex is released on every exit; every read/write of the job file and every job assignment lies inside LockProgFile/"
        "ReleaseProgFile, which take and release the EXCLUSIVE inter-process lock; the merged list is written to the backup before "
        "the job file is rewritten and WRITE_JOBS always emits a complete document; foreign results are merged exactly when they come "
        "from another host; a job is reset and marked ASSIGNED (host, time) before it is queued, the cursor advances every iteration "
        "and each queued job is handed out once.",
   note="xtp is not built here: units are parsed with synthesised flags (stated assumption). Not decided: behaviour at real crash "
        "points, boost::interprocess semantics, exception paths."),
 "C09": dict(cat="other", ref="DESIGN.md section 4 C09",
   technique="who-may-write analysis of the status field, CFG required-edge check tying the Success path to checkConvergence's un-negated result, must-assign dataflow with helper summaries over the instantiated solve template, decision table for the zeroing of unconverged roots",
   text="Decides only the status-honesty clause: Success can be written solely by storeConvergedData, which solve reaches only when "
        "checkConvergence returned true; that predicate is 'all requested residual norms < tol_'; every run of solve assigns the status "
        "before it can return, so a reused solver cannot report a stale Success; unconverged roots are zeroed and reported as "
        "NoConvergence; accepted option literals equal the shipped choices."
        + 'Also decides two necessary conditions of the convergence clauses: extendProjection builds one correction for every unconverged tracked root (all tracked roots visited, consecutive new columns, resize by the unconverged count), and the cached product AV stays A*V (Ritz vectors q = V U, residues AV U - q diag(lambda), appended columns A*V_new, restart transforms AV and the retained vectors by the same matrix); non-finite correction vectors are filtered (decided by cases finite/NaN/Inf, also through a helper); the operator diagonal used by the correction is fetched from the operator of this solve() unconditionally before it is read; restart() is told the number of columns extendProjection appended. ',
   note="NOT decided - and this is most of the property: returned values being the lowest eigenvalues, orthonormality, residual "
        "bounds, convergence for diagonally dominant matrices, the Hamiltonian mode. Those are numerical and outside static analysis. "
        "xtp is not built here; units parsed with synthesised flags."),
 "C14": dict(cat="proof", ref="DESIGN.md section 4 C14",
   technique="symbolic folding of Marcusrate / Rate / InitEscapeRate / Promotetime with exact algebraic identities (detailed balance, linearity, positivity); the driving force per carrier kind by cases; the selection-tree normaliser must be independent of the state before makeTree; orientation agreement between tree construction, probability shifting and lookup",
   text="Decides the closed-form clauses for all pairs, temperatures and fields: the Marcus expression satisfies k(dG)/k(-dG) = exp(dG/kT) "
        "for equal reorganisation energies, is linear in J^2 and positive; Rate() feeds +dG/-dG with the same coupling, the charge "
        "table and the q R.F term, and the reverse event uses -R; the escape rate is the sum of event rates from zero; the waiting "
        "time is -ln(u)/k. For the selection tree the local conditions are decided (every event becomes a leaf once, last-level and inner "
        "node probabilities, the shift recurrence a_left = a + P(right), a_right = a, thresholds a + P(right part), one orientation in "
        "construction, descent and leaf choice); by structural induction (DESIGN.md section 4 C14) they imply that each event is selected on an "
        "interval of length rate/escape-rate and every p in [0,1] selects an event, for every merge order of the priority queue. "
        + 'Also: QMPair persistence keeps the per-carrier tables - the record field WriteData fills from lambda0_/Jeff2_.getValue(X) is the field ReadData hands to setValue(., X), for all four carrier kinds. ',
   note="NOT decided: floating-point rounding of the cumulative thresholds, that the merge order balances the tree (efficiency only), uniformity of the random numbers, the physical sign convention of the field term (the code's dG = (E1-E2) + q R.F "
        "is taken as the definition). xtp is parsed, not built."),
 "C17": dict(cat="other", ref="DESIGN.md section 4 C17",
   technique="enumerator-to-open-mode table from the constructor's switch, CFG required-edge for the read-only guard, sibling agreement of writer/reader overload kinds and of the matrix hyperslab parameters, try/catch shape of every public operator(), overwrite rule followed through helpers (what runs when creation throws: handler + fall-through must unlink and re-create)",
   text="Decides the structural clauses: access levels map to the right HDF5 modes and a read-only file cannot hand out a writer; every "
        "value kind the writer stores has a reader; the matrix writer and reader use identical hyperslab selections and transfer "
        "spaces (so the stored layout is the read layout for every shape); reading a missing name or any HDF5 failure becomes a thrown "
        "std::runtime_error; re-writing an existing name unlinks and re-creates the object (so the old value is replaced for any new shape)."
        + 'Also: every construction of a CheckpointWriter from a group in checkpoint.cc lies behind the READ rejection; list members are written and fetched by the same name function of the position; for the five parsable row classes (Atom, QMAtom, StaticSite, PolarSite, QMPair) every field of the row record has one column at its own offset and type, is filled by WriteData and consumed by ReadData, and each member slot is restored from the column it was stored in; a scalar attribute that is reopened when its name exists is created with a value-independent type; no dataset/group writer returns before the object of that name has been (re)created. ',
   note="Not decided: HDF5's behaviour, bit-identity of the transferred values, non-ASCII strings, CptTable's own HDF5 compound-type calls, the row classes in units that need libint/libecpint headers (not installed). "
        "xtp is parsed, not built; the overwrite defect was replayed with a stand-alone harness (replays/C17_overwrite.cc) and fixed."),
 "C19": dict(cat="other", ref="DESIGN.md section 4 C19",
   technique="Perl compiler op-tree (perl -MO=Concise, compile phase only) folded by a Perl counterpart of the C++ folding engine: scalars through their definitions (ite terms, user subs inlined through @_), array writes as events with path conditions (if/elsif/unless/statement modifiers/next); every documented point-wise formula is decided per scenario of the predicates the write depends on; loop ranges and directions; array pass-through of the grid/flag arrays",
   text="Decides the point-wise formulas of update_ibi_pot.pl (kT ln(g_cur/g_tgt) under both-positive guard, continuation with flag o, both "
        "sweeps alike), dist_boltzmann_invert.pl (-kT ln(P/norm), norm table), table_linearop.pl, potential_shift.pl (shift value: last point "
        "or minimum over flagged points with a defined()-test), table_smooth.pl (stencils, flag guard, unflagged points kept) and "
        "table_integrate.pl (trapezoid recurrences from either end), and that each script writes the grid and flag arrays it read."
        + 'Also: table_scale.pl (prefactor interpolated with weight 0 at the first and 1 at the last point) and table_extrapolate.pl (every extrapolation function continues value and slope at the anchor; sweeps leftwards from the first and rightwards from the last flagged point); each IBI sweep starts without a carried value from another index range (a foreach over several ranges is split into its sweeps). ',
   note="Not decided: shell wrappers (csg_table, csg_call), table_combine, csg_resample-based differentiation and "
        "its inverse relation to integration (numerical), CsgFunctions.pm's parsing loops. No script is executed; perl only compiles them."),
 "C16": dict(cat="other", ref="DESIGN.md section 4 C16 and section 9.6",
   technique="dominance analysis over the clang CFG (the sort of the id source dominates the concatenation loop, which iterates the sorted sequence) + symbolic folding of the distance visitor, the generic visitor step, the breadth-first queue and singleNetwork with their effects decided by truth tables over the conditions they test; node-content table of BeadInfoToGraphNode_",
   text="Decides the structural necessary conditions of the property, not the property: every function that assembles a structure/node id sorts "
        "its source by content only (never by vertex number) on every path before concatenating, so the id cannot depend on hash order or on the "
        "numbering; the node content built from a bead carries name and mass; GraphDistVisitor labels the start vertex 0 and a first-visited "
        "vertex with the label of the other end of the discovering edge plus one and never relabels; exec explores exactly the unexplored end; "
        "the breadth-first queue is first-in-first-out by level and only queues edges towards unexplored vertices; singleNetwork is the "
        "conjunction (all vertices reached) and (no isolated node). Breaking any of these breaks the property for some graph."
        + 'Also: the breadth-first queue discipline of Graph_BF_Visitor (new edges never join the level queue being drained; the front queue is popped and dropped when drained) and a fresh graph copy and visitor per candidate start vertex in findStructureId. ',
   note="NOT decided (needs the dynamics of the traversal over arbitrary graphs, i.e. execution or model checking - a different family): that the "
        "traversals reach every reachable vertex for every graph, that the labels are shortest-path hop counts for every edge order, connected-"
        "component extraction (decoupleIsolatedSubGraphs), reduceGraph/expandGraph round trips, the choice among equal-degree start vertices in "
        "findStructureId, BeadStructure::breakIntoStructures. A change confined to those parts is not seen by this check."),
 "C15": dict(cat="proof", ref="DESIGN.md section 4 C15 and section 9.7",
   technique="dense symbolic folding of eeInteractor::VSiteA<N> (vsa/dense.py: fixed-size Eigen objects as tables of sympy expressions, block accessors as index views, accessors and AxA folded from their bodies) for every instantiation and every rank of site B, exact comparison of the coefficient matrix with the interaction tensor of the Cartesian multipole expansion derived in the rule by differentiating 1/r (normal form modulo |u| = 1); folding of FillTholeInteraction, StaticSite::Rotate and the spherical/Cartesian quadrupole conversions; rank gating and size selection by cases",
   text="Decides for all positions, moments and rank combinations: VSiteA<N>(A,B) is T(posB - posA) Q(B) with T equal, block by block, to the tensor of the "
        "multipole expansion (q_A + mu_A.d + Theta_A:dd/3)(q_B - mu_B.d + Theta_B:dd/3) 1/r in real spherical components; that tensor satisfies T_ij(u) = T_ji(-u) "
        "(the pair energy does not depend on the order of the sites, given that the callers contract with the full moment vector - R15.4), depends on the "
        "separation only (translation invariance), is a contraction of Cartesian tensors (rotation invariance, given that Rotate turns position, dipole and "
        "quadrupole together - R15.5 - and that the spherical<->Cartesian maps are the expansion's and inverse to each other), has T_00 = 1/R, and is by "
        "construction the limit of shrinking point-charge clusters. Field and energy are read off the same interaction vector. The damped dipole-dipole tensor "
        "is -3 l5 a a^T + l3 I, symmetric, traceless undamped, with damping factors that tend to one.",
   note="Identities between formulas of the current source and the expansion derived in the rule (sympy exact arithmetic); trusted: clang front end, sympy. Not "
        "decided: floating-point error of the compiled code, the rate of convergence of finite clusters, induced-dipole iterations. xtp is parsed, not built."),
}
# rules added in rounds h/i (DESIGN.md section 9.8)
EXTRA = {
 "C01": " Also: the mass obligation holds for every bead map (sphere and ellipsoid), no return precedes the setPos/setVel/setF/setMass write-back (R1.2), and the definition/mapping classes keep no mutable function-local static state (R1.7).",
 "C03": " Also: besides the cutoff comparison no comparison on the distance or connection vector gates the insertion (R3.1 no-extra-distance-filter); exclusion helpers returning a disjunction and conjuncts of a negated conjunction are followed.",
 "C04": " Also: the running indices of the per-group IMC output (range start of <group>.idx, row offset) restart for every group (R4.10).",
 "C07": " Also: a shortcut a derivative takes for a special parameter value (lam_k == c) must equal the derivative of CalculateF at that parameter value (R7.3 by cases).",
 "C08": " Also: by cases over a reader's mode flags every path that writes a bead and returns normally passes a throwing atom-count guard (inline or through a file-local helper) (R8.2 count-guard-path).",
 "C10": " Also: Job::UpdateFrom takes status, host, time, output and error from the external copy under conditions on the external copy only (R10.5 update-from).",
 "C11": " Also: the arithmetic convert_impl converts the whole string - no prefix parser (stod/stoi/strtod/atof/sscanf) with an unchecked end position (R11.9).",
 "C12": " Also: Spline::getInterval finds the interval by order comparisons only (a recognised scan returns the last knot not above r), or corrects an arithmetic guess by loops in both directions (R12.10).",
 "C13": " Also: accessors and const members of HistogramNew never reach a function that writes or re-creates the bin table (R13.6).",
 "C14": " Also: GNode::MakeHuffTree rebuilds the tree from the current event list on every call, or every mutator of events_ resets the cache flag (R14.7); AddEventfromQmPair is decided by cases of the starting segment.",
 "C15": " Also: ApplyInducedField_site feeds only the induced dipole of the source into the Thole tensor product (R15.7).",
 "C17": " Also: every container reader (matrix, vector<T>, vector<string>, vector<Vector3d>) sets the size of its target from the stored extent before every normal return (R17.3 reader-target-reset).",
 "C18": " Also: a literal shortcut in bead selection (== instead of wildcmp) must be guarded by a wildcard test that covers both '*' and '?' (R18.5).",
 "C16": " Also: reduceGraph takes the nodes of the reduced graph from the whole input graph (copyNodes(graph) before the return, or graph.getNodes() in the constructor), never from the chain vertices (R16.8).",
 "C19": " Also: the column tables of CsgFunctions.pm readin_table / readin_table_err are read off the subs' op-trees: x, y, (error) from columns 0, 1, (2), flag from the last column, which is also the validated one (R19.3).",
}
for k_, t_ in EXTRA.items():
    CHECKS[k_]["text"] = CHECKS[k_]["text"].rstrip() + t_
CHECKS["C19"]["note"] = CHECKS["C19"]["note"].replace("CsgFunctions.pm's parsing loops", "CsgFunctions.pm's saveto_* printf formats")
CHECKS["C12"]["note"] = CHECKS["C12"]["note"].replace("getInterval at knots, ", "")
NA = {}
m = {"version": 1, "setup_cmd": "./setup.sh",
     "hooks": {"guard": "VOTCA_VERIF", "enable": "not used - the analysis reads unmodified sources; no hooks in /repo",
               "baseline_off_cmd": "cmake --build /repo/_build -j16 && ctest --test-dir /repo/_build -j8 --timeout 900",
               "source_commits": [], "add_only": True},
     "engines": [
        {"name": "vsa-export", "path": "tools/vsa-export.cc", "serves_properties": sorted(CHECKS),
         "kind_free_text": "libTooling exporter: type-checked expression trees with resolved callees/fields, clang CFG, records, enums, constant-evaluated globals as JSON"},
        {"name": "vsa", "path": "vsa/", "serves_properties": sorted(CHECKS),
         "kind_free_text": "python rule engine over the exported facts: dominance/must-pass-through, lockset/typestate, interval analysis, who-may-call, sibling agreement, table extraction, canonical-form algebra (sympy)"}],
     "checks": [], "notes": "Static analysis only: no votca code is executed by any check. Exit 0 holds / 1 VIOLATION / 2 analysis broken (anchor vanished, unrecognised shape). See DESIGN.md.",
     "not_applicable": []}
for i in ids:
    if i in CHECKS:
        c = CHECKS[i]
        m["checks"].append({"property_id": i, "quick_cmd": "./check %s --tier quick" % i,
                            "thorough_cmd": "./check %s --tier thorough" % i,
                            "evidence_file": "/verif/evidence/%s.json" % i,
                            "replay_cmd_template": "./check %s --replay {path}" % i, "engine": "vsa",
                            "level_claimed": {"category": c["cat"], "text": c["text"], "design_ref": c["ref"]},
                            "level_note": c["note"], "technique": c["technique"]})
    else:
        m["not_applicable"].append({"property_id": i, "reason": NA.get(i, "check not built yet (work in progress; see DESIGN.md section 8)")})
json.dump(m, open(os.path.join(HERE, "MANIFEST.json"), "w"), indent=1)
print("MANIFEST: %d checks, %d not applicable" % (len(m["checks"]), len(m["not_applicable"])))
